"""C01 - HVSR curves equal the defined spectral ratio for every combination method.

spec/Spectral.tla: windows given by integer amplitude spectra on K interior FFT
bins, every method name (9 names = 5 functions), two smoothing kernels on the
bin grid; exact ingredients of the ratio at every centre; TLC checks invariance
under a common factor, linearity in the horizontals, inverse proportionality to
the vertical, the closed form for proportional components and alias equality.
spec/SpectralAz.tla: complex (Gaussian-integer) bins and Pythagorean azimuths
for single azimuth / RotDpp.  Every case becomes three real time series
(irfft of the specified spectrum, FFT length = window length, rectangular taper)
and goes through process(); a calibration probe first establishes that
fft_settings={'n': None} still means "no zero padding" (else the multi-bin
tables are INCONCLUSIVE).  Taper and zero padding are bound by factorisation
(process(x, alpha, n) = process(pad(taper(x, alpha), n), 0, None)); scaling by
powers of two is checked bit-exactly on seeded noise for every method,
proportional components against the closed form, diffuse field against its
definition; the stored FFT length never truncates.
"""
import copy
import math
import sys
import warnings

import numpy as np
from scipy.signal.windows import tukey

from vcommon import Run, tlc, require_tlc_ok, import_hvsrpy, main_wrapper

NAMES = ["arithmetic_mean", "squared_average", "quadratic_mean", "root_mean_square", "effective_amplitude_spectrum",
         "geometric_mean", "total_horizontal_energy", "vector_summation", "maximum_horizontal_value"]
AZ = [(1.0, 0.0), (0.0, 1.0), (4 / 5, 3 / 5), (-5 / 13, 12 / 13)]


class SmoothedSpectrumNotPositive(Exception):
    """A Savitzky-Golay smoothed spectrum with a non-positive value: the ratio (its square root for a PSD) is undefined and
    the library refuses the curve - not a case of the property."""


def main():
    run = Run("C01")
    h = import_hvsrpy()
    ts = h.TimeSeries
    rng = np.random.RandomState(run.seed + 1)

    def proc(recs, st):
        with warnings.catch_warnings():
            warnings.simplefilter("ignore")
            try:
                return h.process(copy.deepcopy(recs), st)
            except ValueError as e:
                sm = getattr(st, "smoothing", None) or {}
                if "nan" in str(e) and sm.get("operator") == "savitzky_and_golay":
                    raise SmoothedSpectrumNotPositive(str(e))
                raise

    def series(spec_bins, L, rng_):
        """real series of length L whose rfft has the given complex values on bins 1..K (0 elsewhere)"""
        X = np.zeros(L // 2 + 1, dtype=complex)
        X[1:1 + len(spec_bins)] = spec_bins
        return np.fft.irfft(X, n=L)

    def settings(method, fcs, bw, op="linear_rectangular", width=0.0, fft="none"):
        sm = dict(operator=op, bandwidth=bw, center_frequencies_in_hz=np.array(fcs))
        return h.HvsrTraditionalProcessingSettings(method_to_combine_horizontals=method, smoothing=sm, window_type_and_width=["tukey", width],
                                                   fft_settings={"n": None} if fft == "none" else fft)

    # ---- calibration: does n=None still mean FFT length = window length? ---------------------------------
    L, dt = 64, 0.01
    df = 1.0 / (L * dt)
    probe = [series([3, 0, 0, 7], L, rng), series([4, 0, 0, 1], L, rng), series([5, 0, 0, 2], L, rng)]
    rec = h.SeismicRecording3C(ts(probe[0], dt), ts(probe[1], dt), ts(probe[2], dt))
    st = settings("arithmetic_mean", [1 * df, 4 * df], 0.5 * df)
    out = proc([rec], st).amplitude[0]
    calibrated = np.allclose(out, [(3 + 4) / 2 / 5, (7 + 1) / 2 / 2], rtol=1e-9) and st.fft_settings["n"] == L
    run.notes["calibration_n_None_means_no_padding"] = bool(calibrated)

    # ---- frequency-domain tables --------------------------------------------------------------------------
    cfg = "Spectral_quick" if run.quick else "Spectral_thorough"
    res = tlc("Spectral", cfg, timeout=6000, heap="12g")
    require_tlc_ok(res, cfg)
    run.add_tlc(res, f"{cfg}: ScaleLaws ProportionalFlat AliasesEqual")
    cases = [c for c in res.cases if isinstance(c, dict) and "curve" in c]
    if not run.quick and len(cases) > 30000:
        cases = [cases[i] for i in sorted(rng.choice(len(cases), 30000, replace=False).tolist())]
    for ci, c in enumerate(cases):
        if not calibrated:
            run.inconclusive += 1
            continue
        bins = c["bins"]
        K = len(bins)
        L = int(rng.choice([2 * K + 4, 64, 50]))
        dt = float(rng.choice([0.01, 0.002, 0.5, 0.016, 0.003]))        # also 62.5 and 333.3 Hz: sampling rates that are no whole number of Hz
        df = 1.0 / (L * dt)
        ph = lambda: np.exp(1j * rng.uniform(0, 2 * np.pi, K))
        ns = series(np.array([b[0] for b in bins]) * ph(), L, rng)
        ew = series(np.array([b[1] for b in bins]) * ph(), L, rng)
        vt = series(np.array([b[2] for b in bins]) * ph(), L, rng)
        rec = h.SeismicRecording3C(ts(ns, dt), ts(ew, dt), ts(vt, dt))
        curve = c["curve"]
        if isinstance(curve, list):          # domain 1..K is exported as a JSON array
            curve = {str(i + 1): v for i, v in enumerate(curve)}
        centres = sorted(int(k) for k in curve)
        fcs = [k * df for k in centres]
        if c["kernel"] == "bin":
            st = settings(c["method"], fcs, 0.5 * df)
        else:
            st = settings(c["method"], fcs, 4.0 * df, op="linear_triangular")
        r = proc([rec], st)
        got = r.amplitude[0]
        exp = []
        for k in centres:
            cu = curve[str(k)]
            num = 0.0
            hterms = cu["h"] if isinstance(cu["h"], dict) else {str(i + 1): v for i, v in enumerate(cu["h"])}
            for d, (w, term) in hterms.items():
                v = term["v"][0] / term["v"][1]
                num += (w[0] / w[1]) * (math.sqrt(v) if term["kind"] == "sqrt" else v)
            exp.append(num / (cu["v"][0] / cu["v"][1]))
        exp = np.array(exp)
        if not np.array_equal(r.frequency, np.array(fcs)):
            run.violation("ratio:frequencies", f"result frequencies {r.frequency.tolist()} are not the requested centres {fcs}", dict(kind="spectral", case=c))
        if got.shape != exp.shape or not np.allclose(got, exp, rtol=1e-9):
            run.violation(f"ratio:{c['method']}:{c['kernel']}", f"{c['method']} kernel={c['kernel']} spectrum (|NS|,|EW|,|VT|)={bins} L={L} dt={dt}: "
                          f"curve {got.tolist()}, defined ratio {exp.tolist()}", dict(kind="spectral", case=c, L=L, dt=dt))
        if st.fft_settings["n"] < L:
            run.violation("ratio:truncated", f"FFT length {st.fft_settings['n']} shorter than the window ({L})", dict(kind="spectral", case=c))
        nt = (ci,) if len({tuple(b) for b in bins}) > 1 else None
        run.case(nt, sample=dict(method=c["method"], kernel=c["kernel"], spectrum=bins, window_samples=L, dt=dt, centres_hz=fcs, exact_curve=exp.tolist())
                 if nt and len(run.samples) < 2 and c["kernel"] == "tri" else None)

    # ---- single azimuth / RotDpp tables ------------------------------------------------------------------
    res = tlc("SpectralAz", "SpectralAz", timeout=1200)
    require_tlc_ok(res, "SpectralAz")
    run.add_tlc(res, "SpectralAz: NorthIsNs EastIsEw RotBounds")
    for ci, c in enumerate([c for c in res.cases if isinstance(c, dict) and "res" in c]):
        if not calibrated:
            run.inconclusive += 1
            continue
        K = len(c["ns"])
        L, dt = int(rng.choice([16, 50])), 0.01
        df = 1.0 / (L * dt)
        ns = series(np.array([complex(*b) for b in c["ns"]]), L, rng)
        ew = series(np.array([complex(*b) for b in c["ew"]]), L, rng)
        vt = series(np.array(c["vt"], dtype=float) * np.exp(1j * rng.uniform(0, 6, K)), L, rng)
        rec = h.SeismicRecording3C(ts(ns, dt), ts(ew, dt), ts(vt, dt))
        fcs = [(k + 1) * df for k in range(K)]
        sm = dict(operator="linear_rectangular", bandwidth=0.5 * df, center_frequencies_in_hz=np.array(fcs))
        for a, (cc, ss) in enumerate(AZ):
            az = math.degrees(math.atan2(ss, cc))
            st = h.HvsrTraditionalSingleAzimuthProcessingSettings(azimuth_in_degrees=az, smoothing=dict(sm), window_type_and_width=["tukey", 0.0], fft_settings={"n": None})
            got = proc([rec], st).amplitude[0]
            exp = np.array([math.sqrt(c["res"][k]["hsq"][a][0] / c["res"][k]["hsq"][a][1]) / c["res"][k]["vt"] for k in range(K)])
            if not np.allclose(got, exp, rtol=1e-9, atol=1e-12):
                run.violation("ratio:single_azimuth", f"single azimuth {az:.3f} deg, NS={c['ns']} EW={c['ew']} |VT|={c['vt']}: curve {got.tolist()}, defined {exp.tolist()}",
                              dict(kind="spectral-az", case=c, azimuth=az))
        azs = [math.degrees(math.atan2(s_, c_)) % 180.0 if False else math.degrees(math.atan2(s_, c_)) for c_, s_ in AZ[:3]]
        for pi, p in enumerate((0.0, 50.0, 100.0)):
            st = h.HvsrTraditionalRotDppProcessingSettings(azimuths_in_degrees=azs, ppth_percentile_for_rotdpp_computation=p, smoothing=dict(sm),
                                                           window_type_and_width=["tukey", 0.0], fft_settings={"n": None})
            got = proc([rec], st).amplitude[0]
            exp = np.array([math.sqrt(c["res"][k]["rot"][pi][0] / c["res"][k]["rot"][pi][1]) / c["res"][k]["vt"] for k in range(K)])
            if not np.allclose(got, exp, rtol=1e-9, atol=1e-12):
                run.violation("ratio:rotdpp", f"RotD{int(p)} over azimuths {azs}, NS={c['ns']} EW={c['ew']}: curve {got.tolist()}, defined {exp.tolist()}",
                              dict(kind="spectral-az", case=c, p=p))
        run.case(("az", ci))

    generic(run, h, rng, proc)
    # azimuthal processing is the single-azimuth ratio at every azimuth - with the SAME taper, smoothing and FFT settings (every setting of
    # the azimuthal settings object reaches every azimuth)
    n_, dt_ = 600, 0.01
    xs = [np.cumsum(rng.normal(size=n_)) * 0.1 + rng.normal(size=n_) for _ in range(3)]
    rec_ = h.SeismicRecording3C(ts(xs[0], dt_), ts(xs[1], dt_), ts(xs[2], dt_))
    for width_ in (0.0, 0.1, 0.5, 1.0):
        for sm_ in (dict(operator="konno_and_ohmachi", bandwidth=40.0, center_frequencies_in_hz=np.geomspace(1.0, 30.0, 9)),
                    dict(operator="linear_triangular", bandwidth=2.0, center_frequencies_in_hz=np.linspace(2.0, 30.0, 8))):
            kw_ = dict(smoothing=sm_, window_type_and_width=["tukey", width_], fft_settings={"n": 2048})
            azs_ = [0.0, 40.0, 135.0]
            azi_ = proc([rec_], h.HvsrAzimuthalProcessingSettings(azimuths_in_degrees=azs_, **copy.deepcopy(kw_)))
            for a_, hv_ in zip(azs_, azi_.hvsrs):
                sa_ = proc([rec_], h.HvsrTraditionalSingleAzimuthProcessingSettings(azimuth_in_degrees=a_, **copy.deepcopy(kw_))).amplitude
                if not np.allclose(hv_.amplitude, sa_, rtol=1e-12, atol=0.0):
                    run.violation("ratio:azimuthal-settings", f"azimuthal processing with tukey {width_} / {sm_['operator']}: the curve at {a_} deg differs from the single-azimuth "
                                  f"curve with the same settings (max rel diff {np.max(np.abs(hv_.amplitude - sa_) / np.abs(sa_)):.2e})", dict(kind="az-settings", width=width_, a=a_))
            run.case(("az-settings", width_, sm_["operator"]))
    return run.finish(
        rule="every case of spec/Spectral.tla (spectrum alphabet^K x 9 method names x 2 kernels) and spec/SpectralAz.tla (complex bins x 4 "
             "azimuths x 3 percentiles) realised as time series and processed; factorisation of taper and padding, power-of-two scaling, "
             "proportional components and the diffuse-field definition on seeded noise for every method and operator; non-trivial = spectrum "
             "not constant over the bins",
        exhaustive=run.quick)


def generic(run, h, rng, proc):
    """relations that must hold for arbitrary (seeded noise) windows of any length / time step."""
    ts = h.TimeSeries
    trials = 6 if run.quick else 60
    ops = [("konno_and_ohmachi", 40.0), ("parzen", 0.8), ("savitzky_and_golay", 9), ("linear_rectangular", 0.7), ("log_rectangular", 0.1),
           ("linear_triangular", 0.9), ("log_triangular", 0.12)]
    for t in range(trials):
        n = int(rng.choice([301, 512, 777, 1200]))
        dt = float(rng.choice([0.01, 0.005, 0.02, 0.016]))
        if t >= trials - 2:
            n, dt = 640, 0.01        # the last two trials share the window length and use taper widths 0.125 and 0.12
        mk = lambda: np.cumsum(rng.normal(size=n)) * 0.1 + rng.normal(size=n)
        x = [mk(), mk(), mk()]
        rec = h.SeismicRecording3C(ts(x[0], dt), ts(x[1], dt), ts(x[2], dt))
        op, bw = ops[t % len(ops)]
        fn = 0.5 / dt
        fcs = np.geomspace(fn * 0.02, fn * 0.6, 9)
        width = float(rng.choice([0.0, 0.1, 0.5, 1.0]))
        if t >= trials - 2:
            width = 0.125 if t == trials - 2 else 0.12

        # the azimuth of the single-azimuth method and the azimuth set of RotDpp are any real numbers of degrees: also negative ones and
        # ones beyond 180 (a direction and its back-azimuth give the same curve, a direction and its mirror image do not)
        SA_AZ = (37.0, 200.0, -30.0, 290.0)[t % 4]
        ROT_AZS = ((0.0, 45.0, 90.0, 135.0), (-90.0, -45.0, 0.0, 45.0), (200.0, 245.0, 290.0, 335.0))[t % 3]

        def mkst(kind, method=None, w=width, fft=None, pp=50.0):
            sm = dict(operator=op, bandwidth=bw, center_frequencies_in_hz=fcs.copy())
            kw = dict(smoothing=sm, window_type_and_width=["tukey", w], fft_settings=fft)
            if kind == "trad":
                return h.HvsrTraditionalProcessingSettings(method_to_combine_horizontals=method, **kw)
            if kind == "sa":
                return h.HvsrTraditionalSingleAzimuthProcessingSettings(azimuth_in_degrees=SA_AZ, **kw)
            if kind == "rot":
                return h.HvsrTraditionalRotDppProcessingSettings(azimuths_in_degrees=list(ROT_AZS), ppth_percentile_for_rotdpp_computation=pp, **kw)
            if kind == "df":
                return h.HvsrDiffuseFieldProcessingSettings(**kw)
        kinds = [("trad", m) for m in NAMES] + [("sa", None), ("rot", None), ("df", None)]
        for kind, method in kinds:
            try:
                label = method or kind
                rep = dict(kind="generic", method=label, op=op, n=n, dt=dt, width=width, trial=t, seed=run.seed)
                base = proc([rec], mkst(kind, method)).amplitude
                base = np.atleast_2d(base)[0]
                # taper and zero padding factor out: the explicitly tapered and padded window with a rectangular taper and n = None
                tap = tukey(n, alpha=width)
                padded = [np.concatenate([xi * tap, np.zeros(32768 - n)]) for xi in x]
                rec2 = h.SeismicRecording3C(ts(padded[0], dt), ts(padded[1], dt), ts(padded[2], dt))
                if kind in ("sa", "rot"):
                    # the time-domain paths taper after projecting: same factorisation
                    pass
                fac = np.atleast_2d(proc([rec2], mkst(kind, method, w=0.0, fft={"n": None})).amplitude)[0]
                scale = math.sqrt(32768.0 / n) if kind == "df" else 1.0        # a PSD is normalised by the unpadded length; the ratio is not affected
                if not np.allclose(base, fac, rtol=1e-9):
                    run.violation(f"factorisation:{label}", f"{label} with {op}: process(x, tukey {width}, n=32768) differs from process(pad(taper(x))) "
                                  f"(n={n}, dt={dt}); max rel diff {np.max(np.abs(base-fac)/np.abs(fac)):.2e}", rep)
                # scaling by powers of two: the curve is unchanged / scaled to rounding (bit-exact for today's formulas, but
                # e.g. sqrt(ns) * sqrt(ew) is an equally good geometric mean and does not commute with an odd power of two)
                same = lambda a_, b_: np.allclose(a_, b_, rtol=1e-12, atol=0.0)
                k = int(rng.choice([-3, 2, 5]))
                f = 2.0 ** k
                rec_all = h.SeismicRecording3C(ts(x[0] * f, dt), ts(x[1] * f, dt), ts(x[2] * f, dt))
                rec_h = h.SeismicRecording3C(ts(x[0] * f, dt), ts(x[1] * f, dt), ts(x[2], dt))
                rec_v = h.SeismicRecording3C(ts(x[0], dt), ts(x[1], dt), ts(x[2] * f, dt))
                a_all = np.atleast_2d(proc([rec_all], mkst(kind, method)).amplitude)[0]
                a_h = np.atleast_2d(proc([rec_h], mkst(kind, method)).amplitude)[0]
                a_v = np.atleast_2d(proc([rec_v], mkst(kind, method)).amplitude)[0]
                if not same(a_all, base):
                    run.violation(f"scale-all:{label}", f"{label} with {op}: multiplying all three components by 2^{k} changes the curve", rep)
                # "any amplitude scale": ambient noise in m/s is of the order 1e-9 .. 1e-12, raw counts 1e6 .. 1e9; a power of two commutes
                # with every floating-point operation of the pipeline but the square root, so the curve is the same to rounding
                for kx in (-40, 33):
                    fx = 2.0 ** kx
                    rec_x = h.SeismicRecording3C(ts(x[0] * fx, dt), ts(x[1] * fx, dt), ts(x[2] * fx, dt))
                    a_x = np.atleast_2d(proc([rec_x], mkst(kind, method)).amplitude)[0]
                    if not same(a_x, base):
                        run.violation(f"scale-all:{label}", f"{label} with {op}: multiplying all three components by 2^{kx} (~{fx:.1e}) changes the curve "
                                      f"(max rel diff {np.max(np.abs(a_x - base) / np.abs(base)):.2e})", rep)
                if not same(a_h, base * f):
                    run.violation(f"scale-horizontals:{label}", f"{label} with {op}: multiplying the horizontals by 2^{k} does not multiply the curve by 2^{k}", rep)
                if not same(a_v, base / f):
                    run.violation(f"scale-vertical:{label}", f"{label} with {op}: multiplying the vertical by 2^{k} does not divide the curve by 2^{k}", rep)
                # proportional components: flat at the closed-form value
                A, B, C = 3.0, 1.5, 2.0
                recp = h.SeismicRecording3C(ts(A * x[2], dt), ts(B * x[2], dt), ts(C * x[2], dt))
                flat = np.atleast_2d(proc([recp], mkst(kind, method)).amplitude)[0]
                closed = {"arithmetic_mean": (A + B) / 2, "squared_average": math.sqrt((A * A + B * B) / 2), "quadratic_mean": math.sqrt((A * A + B * B) / 2),
                          "root_mean_square": math.sqrt((A * A + B * B) / 2), "effective_amplitude_spectrum": math.sqrt((A * A + B * B) / 2),
                          "geometric_mean": math.sqrt(A * B), "total_horizontal_energy": math.sqrt(A * A + B * B), "vector_summation": math.sqrt(A * A + B * B),
                          "maximum_horizontal_value": max(A, B), "sa": abs(A * math.cos(math.radians(SA_AZ)) + B * math.sin(math.radians(SA_AZ))),
                          "df": math.sqrt(A * A + B * B)}.get(label)
                if closed is None:    # RotD50 over 0/45/90/135: median of |A cos a + B sin a| (numpy percentile of 4 values interpolates)
                    vals = sorted(abs(A * math.cos(math.radians(a)) + B * math.sin(math.radians(a))) for a in ROT_AZS)
                    closed = (vals[1] + vals[2]) / 2
                if not np.allclose(flat, closed / C, rtol=1e-9):
                    run.violation(f"proportional:{label}", f"{label} with {op}: components {A}s, {B}s, {C}s give {flat.tolist()[:3]}..., closed form {closed / C}", rep)
                # the same with a vertical that is STRONGER than every rotated horizontal (a ratio below 1 is a ratio like any other),
                # for the percentiles 0, 100 and one in between as well
                if kind in ("rot", "trad", "sa", "df"):
                    C2 = 8.0
                    recq = h.SeismicRecording3C(ts(A * x[2], dt), ts(B * x[2], dt), ts(C2 * x[2], dt))
                    for pp in ((0.0, 100.0, 37.5) if kind == "rot" else (50.0,)):
                        flat2 = np.atleast_2d(proc([recq], mkst(kind, method, pp=pp)).amplitude)[0]
                        closed2 = closed
                        if kind == "rot":
                            closed2 = float(np.percentile([abs(A * math.cos(math.radians(a)) + B * math.sin(math.radians(a))) for a in ROT_AZS], pp))
                        if not np.allclose(flat2, closed2 / C2, rtol=1e-9):
                            run.violation(f"proportional:{label}", f"{label} (percentile {pp}) with {op}: components {A}s, {B}s, {C2}s give {flat2.tolist()[:3]}..., "
                                          f"closed form {closed2 / C2}", rep)
                run.case(("gen", t, label))
            except SmoothedSpectrumNotPositive:
                run.inconclusive += 1      # Savitzky-Golay weights are not all positive: the smoothed spectrum left the domain of the ratio
                continue
        # ---- FFT length: zero padding, never truncation (Session.tla: NeverTruncates) -------------------------
        # (a) a user-supplied n shorter than the window, (b) a settings object that was used on a shorter window
        #     before: the curve must equal the one obtained with fresh default settings (n = next power of two >= window)
        nlong = int(rng.choice([33001, 40000]))
        longx = [np.cumsum(rng.normal(size=nlong)) * 0.1 + rng.normal(size=nlong) for _ in range(3)]
        long_rec = h.SeismicRecording3C(ts(longx[0], dt), ts(longx[1], dt), ts(longx[2], dt))
        for kind, method in (("trad", NAMES[t % len(NAMES)]), ("sa", None), ("df", None)):
            try:
                label = method or kind
                fresh_long = np.atleast_2d(proc([long_rec], mkst(kind, method)).amplitude)[0]
                fresh_short = np.atleast_2d(proc([rec], mkst(kind, method)).amplitude)[0]
                try:
                    small = np.atleast_2d(proc([rec], mkst(kind, method, fft={"n": 256})).amplitude)[0]
                except Exception as e:
                    run.violation(f"fft-length:user-n-shorter-than-window:{label}", f"{label}: fft_settings n=256 on a {n}-sample window raised "
                                  f"{type(e).__name__}: {e} (the window must be zero padded to the next power of two)", dict(kind="generic", method=label, n=n, trial=t))
                    small = fresh_short
                if not np.array_equal(small, fresh_short):
                    run.violation(f"fft-length:user-n-shorter-than-window:{label}", f"{label}: fft_settings n=256 on a {n}-sample window changes the curve "
                                  f"(the window must be zero padded, never truncated); max rel diff {np.max(np.abs(small-fresh_short)/fresh_short):.2e}",
                                  dict(kind="generic", method=label, n=n, trial=t))
                reused = mkst(kind, method)
                proc([rec], reused)
                try:
                    second = np.atleast_2d(proc([long_rec], reused).amplitude)[0]
                except Exception as e:
                    run.violation(f"fft-length:settings-reused-on-longer-window:{label}", f"{label}: reusing a settings object on a longer window raised {type(e).__name__}: {e}",
                                  dict(kind="generic", method=label, n=n, nlong=nlong, trial=t))
                    second = fresh_long
                if not np.array_equal(second, fresh_long):
                    run.violation(f"fft-length:settings-reused-on-longer-window:{label}", f"{label}: a settings object used on a {n}-sample window and then on a "
                                  f"{nlong}-sample window gives a different curve than fresh settings (stored FFT length {reused.fft_settings.get('n')}); "
                                  f"max rel diff {np.max(np.abs(second-fresh_long)/fresh_long):.2e}", dict(kind="generic", method=label, n=n, nlong=nlong, trial=t))
                if reused.fft_settings["n"] < nlong:
                    run.violation("ratio:truncated", f"stored FFT length {reused.fft_settings['n']} is shorter than the window ({nlong} samples)", dict(kind="generic", n=nlong))
                run.case(("fftlen", t, label))


            except SmoothedSpectrumNotPositive:
                run.inconclusive += 1      # Savitzky-Golay weights are not all positive: the smoothed spectrum left the domain of the ratio
                continue
if __name__ == "__main__":
    sys.path.insert(0, __file__.rsplit("/", 1)[0])
    main_wrapper(main)
