"""C02 - smoothing operators are the published normalised kernels.

spec/Smoothing.tla (+SmoothingMC): every subset of offset classes whose kernel
weight is an exact rational multiple of a common constant ("nice abscissae" of
the sinc^4 kernels, classes just inside / outside the limits of the rectangular
and triangular kernels); TLC checks constant reproduction, linearity, between
min and max, zero iff empty, and exports the exact ingredients of the smoothed
value.  spec/SavGol.tla: Savitzky-Golay coefficients, cubic reproduction, exact
values.  spec/SmoothGrid.tla: FFT-like grids incl. the 0 Hz bin, centres on and
off grid, below the first and above the last bin.
Every case builds the real frequency vector (fc*10^(u/b), fc + u*b/a, i*df ...)
and calls the compiled operator AND its interpreted source (.py_func): both must
match the exact value (rtol 1e-9) and each other (few ulp); rows are smoothed
stacked and alone (row independence); vectors of centres in ascending,
descending, shuffled, split and repeated order give the single-centre values.
"""
import math
import sys

import numpy as np

from vcommon import Run, tlc, require_tlc_ok, import_hvsrpy, main_wrapper

RTOL = 1e-9
PI4 = math.pi ** 4


def rows_for(n_classes):
    idx = np.arange(1, n_classes + 1)
    A = idx.astype(float)
    B = ((idx * idx) % 5 + 1).astype(float)
    return A, B, 2 * A + 3 * B, np.full(n_classes, 7.0)


def main():
    run = Run("C02")
    import_hvsrpy()
    from hvsrpy import smoothing as sm
    ops = sm.SMOOTHING_OPERATORS
    rng = np.random.RandomState(run.seed)

    def both(name, f, spec, fcs, bw):
        """compiled and interpreted results (they must agree to a few ulp)."""
        fn = ops[name]
        got = fn(f, spec, fcs, bw)
        pyf = getattr(fn, "py_func", None)
        if pyf is None and name == "savitzky_and_golay":
            # the compiled part is the inner kernel; run the wrapper with the interpreted inner kernel
            inner = sm._savitzky_and_golay
            try:
                sm._savitzky_and_golay = inner.py_func
                ref = fn(f, spec, fcs, bw)
            finally:
                sm._savitzky_and_golay = inner
        else:
            ref = pyf(f, spec, fcs, bw)
        if got.shape != ref.shape or not np.allclose(got, ref, rtol=1e-14, atol=1e-300):
            run.violation(f"compiled-vs-source:{name}", f"{name}: compiled result {got.tolist()} differs from the interpreted source {ref.tolist()} "
                          f"for frequencies={f.tolist()} fcs={fcs.tolist()} bandwidth={bw}",
                          dict(kind="smooth-compiled", op=name, f=f.tolist(), spec=spec.tolist(), fcs=fcs.tolist(), bw=bw))
        return got

    # ---------------- class-based cases -------------------------------------------------------
    SINC_SMALL = [0, 2, -3, 4, 6, -8, 10, -10, 12, 14]     # labels of SmoothingMC!Sinc4Small
    SINC_FULL = [0, 2, -2, 3, -3, 4, -4, 6, -6, 8, -8, 9, -9, 10, -10, 12, -12, 14]
    RT = [0, 25, -50, 75, -99, 99, 100, -101, 101, 150]
    plans = [("sinc4", "Smoothing_sinc4" if run.quick else "Smoothing_sinc4full", SINC_SMALL if run.quick else SINC_FULL,
              [("konno_and_ohmachi", b) for b in (40.0, 10.0, 188.5)] + [("parzen", b) for b in (0.5, 0.1, 2.0)]),
             ("rect", "Smoothing_rect", RT, [("linear_rectangular", 0.5), ("linear_rectangular", 2.0), ("log_rectangular", 0.05), ("log_rectangular", 0.3)]),
             ("tri", "Smoothing_tri", RT, [("linear_triangular", 0.5), ("linear_triangular", 2.0), ("log_triangular", 0.05), ("log_triangular", 0.3)])]
    a_parzen = (math.pi * 280) / (2 * 151)
    for kernel, cfg, labels, opsbw in plans:
        res = tlc("SmoothingMC", cfg, timeout=3000, workers=16, heap="8g")
        require_tlc_ok(res, cfg)
        run.add_tlc(res, f"{cfg}: ConstantReproduced Linear Between NonNegative ZeroIffEmpty on every subset of classes")
        cases = [c for c in res.cases if isinstance(c, dict) and "pop" in c]
        table = [c["table"] for c in cases if c.get("table")]
        table = table[0] if table else None
        if not run.quick and kernel == "sinc4":
            # 2^18 subsets: replay a seeded 20 000 of them (TLC checked them all)
            sel = rng.choice(len(cases), 20000, replace=False)
            cases = [cases[i] for i in sel]
        A, B, C, D = rows_for(len(labels))
        for name, bw in opsbw:
            for fc in ((1.0, 7.3) if run.quick else (1.0, 7.3, 0.31)):
                for c in cases:
                    pop = c["pop"]
                    if not pop:
                        continue
                    if c["ties"]:
                        run.ties += 1
                        continue
                    # frequencies of the populated classes
                    fr = []
                    for i in pop:
                        u = labels[i - 1]
                        if kernel == "sinc4":
                            ang = u * math.pi / 12.0
                            fr.append(fc * 10 ** (ang / bw) if name == "konno_and_ohmachi" else fc + ang * bw / a_parzen)
                        else:
                            t = u / 100.0
                            fr.append(fc + t * bw / 2 if name.startswith("linear") else fc * 10 ** (t * bw / 2))
                    fr = np.array(fr)
                    if (fr <= 1e-3).any():
                        continue      # a class would fall below 0 Hz for this (fc, bandwidth): not an instance
                    order = np.argsort(fr)
                    f = fr[order]
                    cols = [pop[j] - 1 for j in order]
                    spec = np.vstack([A[cols], B[cols], C[cols], D[cols]])
                    fcs = np.array([fc])
                    got = both(name, f, spec, fcs, bw)[:, 0]
                    exp = []
                    cres = c["res"]
                    if not cres:
                        # large alphabet: TLC enumerated the case, the sums are formed here in exact fractions from the
                        # class table exported by the specification
                        from fractions import Fraction
                        cres = []
                        for row in (A, B, C, D):
                            cen = [i for i in pop if table[i - 1]["centre"]]
                            con = [i for i in pop if not table[i - 1]["centre"] and table[i - 1]["tier"] == "P"]
                            wsum = sum((Fraction(*table[i - 1]["w"]) for i in con), Fraction(0))
                            acc = sum((Fraction(*table[i - 1]["w"]) * Fraction(int(row[i - 1])) for i in con), Fraction(0))
                            cres.append(dict(c=1 if cen else 0, s0=float(row[cen[0] - 1]) if cen else 0.0,
                                             A=[acc.numerator, acc.denominator], B=[wsum.numerator, wsum.denominator]))
                    for r in cres:
                        num = r["c"] * PI4 * r["s0"] + r["A"][0] / r["A"][1] if kernel == "sinc4" else r["c"] * r["s0"] + r["A"][0] / r["A"][1]
                        den = r["c"] * PI4 + r["B"][0] / r["B"][1] if kernel == "sinc4" else r["c"] + r["B"][0] / r["B"][1]
                        exp.append(0.0 if den == 0 else num / den)
                    exp = np.array(exp)
                    if c["itier"] and kernel == "sinc4" and name == "parzen":
                        # the class beyond Konno-Ohmachi's cut-off lies inside Parzen's: its published weight counts
                        u = 14 * math.pi / 12
                        w = (math.sin(u) / u) ** 4
                        j = [k for k, lab in enumerate(labels) if lab == 14][0]
                        rws = [A[j], B[j], C[j], D[j]]
                        exp2 = []
                        for r, s_ in zip(cres, rws):
                            num = r["c"] * s_ * 0 + r["c"] * r["s0"] + (r["A"][0] / r["A"][1]) / PI4 + w * s_
                            den = r["c"] + (r["B"][0] / r["B"][1]) / PI4 + w
                            exp2.append(num / den)
                        exp = np.array(exp2)
                    ok = np.allclose(got, exp, rtol=RTOL, atol=1e-12)
                    if not ok and c["empty"] and kernel == "sinc4" and name == "parzen":
                        # only samples on zeros of the kernel (weight exactly 0, sin(k pi) ~ 1e-16 in floating point):
                        # rounding decides whether they count; any average of them, or 0, is acceptable
                        zs = [pop_i - 1 for pop_i in pop if labels[pop_i - 1] in (12, -12)]
                        if zs and all(g == 0.0 or min(r_[zs]) - 1e-9 <= g <= max(r_[zs]) + 1e-9 for g, r_ in zip(got, (A, B, C, D))):
                            run.ties += 1
                            continue
                    if c["itier"] and name == "konno_and_ohmachi":
                        # a sample beyond today's cut-off (|b log10 f/fc| = 7pi/6 > 3): truncated and untruncated
                        # implementations of the published kernel differ here - implementation tier only
                        run.inconclusive += 1
                        if not ok:
                            run.drift += 1
                        continue
                    if not ok:
                        run.violation(f"kernel:{name}", f"{name}(bandwidth={bw}) at fc={fc} with samples at offsets {[labels[i-1] for i in pop]} "
                                      f"({'pi/12 units' if kernel == 'sinc4' else 'hundredths of the half width'}): got {got.tolist()}, exact {exp.tolist()}",
                                      dict(kind="smooth-class", op=name, bw=bw, fc=fc, f=f.tolist(), spec=spec.tolist(), expected=exp.tolist()))
                    nt = (kernel, tuple(pop)) if len(pop) >= 2 and not c["empty"] else None
                    run.case(nt, sample=dict(operator=name, bandwidth=bw, fc=fc, frequencies=f.tolist(), rows=spec.tolist(), exact=exp.tolist())
                             if nt and len(run.samples) < 3 and len(pop) == 4 else None)
                    # rows are independent; extra centres: far away (empty window) and fc < 1e-6 -> 0
                    if len(pop) >= 3 and (len(pop) + int(fc * 10)) % 5 == 0:
                        alone = both(name, f, spec[1:2], fcs, bw)[0, 0]
                        # (to rounding: a batched implementation may sum in another order than a single-row call)
                        if not np.isclose(alone, got[1], rtol=1e-12, atol=0.0):
                            run.violation(f"rows:{name}", f"{name}: row smoothed alone {alone} differs from the same row in a stack {got[1]}",
                                          dict(kind="smooth-rows", op=name, f=f.tolist(), spec=spec.tolist(), fc=fc, bw=bw))
                        far = fc * 1e3 if not name.startswith("linear") and name != "parzen" else fc + 1e4
                        ext = both(name, f, spec, np.array([fc, 1e-7, far]), bw)
                        if not (np.allclose(ext[:, 0], got, rtol=1e-12, atol=0.0) and not ext[:, 1].any() and (name == "parzen" or not ext[:, 2].any())):
                            run.violation(f"centres:{name}", f"{name}: result at fc depends on the other centres, or a centre without samples / below 1e-6 Hz is not 0: {ext.tolist()}",
                                          dict(kind="smooth-centres", op=name, f=f.tolist(), spec=spec.tolist(), fc=fc, bw=bw))

    # ---------------- Savitzky-Golay -------------------------------------------------------------
    res = tlc("SavGol", "SavGol", timeout=600, workers=4)
    require_tlc_ok(res, "SavGol")
    run.add_tlc(res, "SavGol: Normalised Symmetric ReproducesCubics PolyRowsExact")
    G = 16
    i = np.arange(1, G + 1, dtype=float)
    rows = np.vstack([i, i * i, i ** 3 - 4 * i * i + 7, (i * i) % 7 + 1])
    for df, f0 in ((0.25, 0.0), (0.01, 0.0), (1.0, 3.0)):
        f = f0 + df * np.arange(G)
        for c in [c for c in res.cases if isinstance(c, dict) and "fits" in c]:
            m, x = c["m"], c["x"]
            for off in (0.0, 0.3, -0.4):
                fcs = np.array([f[x - 1] + off * df])
                got = both("savitzky_and_golay", f, rows, fcs, m)[:, 0]
                if c["interior"]:
                    exp = np.array([r[0] / r[1] for r in c["res"]])
                    # a narrow spectral line on a floor of zeros (a non-negative spectrum): the published kernel has NEGATIVE outer taps, the
                    # smoothed value next to the line is negative - Coef / NormC of SavGol.tla evaluated for a unit spike two bins off and at the edge
                    from fractions import Fraction as _F
                    xk = int(round(x + off)) if abs(off) < 0.5 else x          # the centre snaps to the nearest grid point
                    for dist_ in (2, (m - 1) // 2):
                        j_ = xk + dist_
                        if 1 <= j_ <= G:
                            spike = np.zeros((1, G)); spike[0, j_ - 1] = 1.0
                            want_ = float(_F(3 * (3 * m * m - 7 - 20 * dist_ * dist_), 4) / _F(m * (m * m - 4), 1))
                            got_ = float(both("savitzky_and_golay", f, spike, fcs, m)[0, 0])
                            if not np.isclose(got_, want_, rtol=1e-9, atol=1e-12):
                                run.violation("kernel:savitzky_and_golay:spike", f"savitzky_and_golay(m={m}) at grid point {x} (+{off} df) of a unit line {dist_} bins above: got {got_}, "
                                              f"the kernel's coefficient is {want_}", dict(kind="sg-spike", m=m, x=x, dist=dist_))
                    if not np.allclose(got, exp, rtol=RTOL, atol=1e-9):
                        run.violation("kernel:savitzky_and_golay", f"savitzky_and_golay(m={m}) at grid point {x} (+{off} df): got {got.tolist()}, exact {exp.tolist()}",
                                      dict(kind="sg", m=m, x=x, df=df, f0=f0, off=off))
                    run.case(("sg", m, x))
                elif not c["fits"]:
                    if got.any():
                        run.violation("kernel:savitzky_and_golay:edge", f"savitzky_and_golay(m={m}) at grid point {x}: the window leaves the grid but the result is {got.tolist()}",
                                      dict(kind="sg-edge", m=m, x=x))
                    run.case()
                else:
                    run.inconclusive += 1     # window touches the first grid point: implementation tier only

    # ---------------- FFT-like grids ------------------------------------------------------------
    res = tlc("SmoothGrid", "SmoothGrid", timeout=600, workers=4)
    require_tlc_ok(res, "SmoothGrid")
    run.add_tlc(res, "SmoothGrid: Refines BetweenMinMax")
    M = 9
    ii = np.arange(0, M + 1)
    spec = np.vstack([ii + 1.0, ((ii * ii) % 5 + 1).astype(float)])
    for n_, dt in ((2 * M, 0.5), (2 * M, 0.004), (2 * M + 1, 0.01)):
        f = np.fft.rfftfreq(n_, dt)
        df = f[1]
        for c in [c for c in res.cases if isinstance(c, dict) and "c2" in c]:
            fc = c["c2"] / 2.0 * df
            bw = c["b"] * df
            for name, ka, kb in (("linear_rectangular", "rectA", "rectB"), ("linear_triangular", "triA", "triB")):
                got = both(name, f, spec, np.array([fc]), bw)[:, 0]
                for g, key in ((got[0], ka), (got[1], kb)):
                    allowed = [v[0] / v[1] for v in c["res"][key]]
                    if c["centreBelowZero"]:
                        allowed.append(0.0)
                    if name == "linear_triangular" and c["edgeOnly"]:
                        # only samples exactly on the limit (weight exactly 0): rounding decides whether and how they count
                        lo_, hi_ = (c["edgeA"] if key == ka else c["edgeB"])
                        if g == 0.0 or lo_ - 1e-9 <= g <= hi_ + 1e-9:
                            continue
                    if not any(abs(g - a) <= RTOL * abs(a) + 1e-12 for a in allowed):
                        run.violation(f"grid:{name}", f"{name} on rfftfreq({n_}, {dt}) at fc={c['c2']}/2 df, bandwidth={c['b']} df: got {g}, "
                                      f"property-level answers {allowed}", dict(kind="smooth-grid", op=name, n=n_, dt=dt, c2=c["c2"], b=c["b"]))
                run.case(("grid", name, c["c2"], c["b"]) if len(c["res"][ka]) == 1 else None)
    # ---------------- an exactly representable grid: 0.25 Hz steps, centres on eighths, bandwidths multiples of 0.25 ------
    # every difference f - fc and bandwidth / 2 is exact in binary, so samples ON the window edge are decided exactly:
    # the rectangular kernel is symmetric - both edges in or both out - and a sample outside the window has weight 0
    # whatever its size (the 1e18 outlier must not leak into windows that do not contain it)
    fx = ii * 0.25
    for c in [c for c in res.cases if isinstance(c, dict) and "c2" in c]:
        fc, bw = c["c2"] * 0.125, c["b"] * 0.25
        got = both("linear_rectangular", fx, spec, np.array([fc]), bw)[:, 0]
        for g, key in ((got[0], "symA"), (got[1], "symB")):
            allowed = [v[0] / v[1] for v in c["res"][key]] + ([0.0] if c["centreBelowZero"] else [])
            if not any(abs(g - a) <= RTOL * abs(a) + 1e-12 for a in allowed):
                both_edges = sum(1 for i in range(1, M + 1) if abs(2 * i - c["c2"]) == c["b"])
                run.violation("grid-exact:linear_rectangular:edges", f"linear_rectangular on the exact grid i/4 Hz at fc={fc}, bandwidth={bw} "
                              f"({both_edges} sample(s) exactly on the window edge): got {g}, a symmetric window gives {allowed}",
                              dict(kind="smooth-grid-exact", c2=c["c2"], b=c["b"]))
        # outlier outside the window: sample 1 (0.25 Hz) = 1e18
        if abs(2 * 1 - c["c2"]) > c["b"] and not c["centreBelowZero"]:
            spec_out = spec.copy()
            spec_out[:, 1] = 1e18
            for name in ("linear_rectangular", "linear_triangular"):
                g0 = both(name, fx, spec, np.array([fc]), bw)[:, 0]
                g1 = both(name, fx, spec_out, np.array([fc]), bw)[:, 0]
                if not np.allclose(g0, g1, rtol=RTOL, atol=0):
                    run.violation(f"grid-exact:{name}:outside-sample-leaks", f"{name} at fc={fc}, bandwidth={bw}: replacing the sample at 0.25 Hz (outside the window) "
                                  f"by 1e18 changes the result from {g0.tolist()} to {g1.tolist()}", dict(kind="smooth-grid-outlier", c2=c["c2"], b=c["b"], op=name))
        run.case(("grid-exact", c["c2"], c["b"]))

    # ---------------- vectors of centre frequencies: the operator is the pointwise map --------------------
    # (spec: the smoothed value is defined per centre - SmoothGrid / Smoothing evaluate one centre at a time; a call with
    #  a vector of centres, in ANY order and with repetitions, is the sequence of the single-centre values)
    cases_b = {}
    for c in [c for c in res.cases if isinstance(c, dict) and "c2" in c]:
        cases_b.setdefault(c["b"], []).append(c)
    f = np.fft.rfftfreq(2 * M, 0.004)
    df = f[1]
    for b_, cs in sorted(cases_b.items()):
        cs = sorted(cs, key=lambda c: c["c2"])
        asc = [c["c2"] for c in cs]
        orders = {"ascending": asc, "descending": asc[::-1], "shuffled": [asc[i] for i in rng.permutation(len(asc))],
                  "two-ranges": asc[len(asc) // 2:] + asc[:len(asc) // 2], "repeated": asc[::3] + asc[::3]}
        bycentre = {c["c2"]: c for c in cs}
        for oname, order in orders.items():
            fcs = np.array([c2 / 2.0 * df for c2 in order])
            for name, ka, kb in (("linear_rectangular", "rectA", "rectB"), ("linear_triangular", "triA", "triB")):
                got = both(name, f, spec, fcs, b_ * df)
                for col, c2 in enumerate(order):
                    c = bycentre[c2]
                    for g, key in ((got[0, col], ka), (got[1, col], kb)):
                        allowed = [v[0] / v[1] for v in c["res"][key]] + ([0.0] if c["centreBelowZero"] else [])
                        if name == "linear_triangular" and c["edgeOnly"]:
                            continue
                        if not any(abs(g - a) <= RTOL * abs(a) + 1e-12 for a in allowed):
                            run.violation(f"vector:{name}:{oname}", f"{name} with {len(order)} centres in {oname} order, bandwidth {b_} df: column {col} "
                                          f"(centre {c2}/2 df) is {g}, property-level answers {allowed}",
                                          dict(kind="smooth-vector", op=name, order=order, b=b_))
                run.case(("vector", name, b_, oname))
    # the five operators without a TLC table on this grid: vector call = single-centre calls (which are judged above)
    fpos = np.fft.rfftfreq(256, 0.01)
    rows = np.vstack([1.0 + np.arange(len(fpos)) % 7, 2.0 + np.sin(np.arange(len(fpos))) ** 2])
    base_fcs = np.geomspace(0.7, 45.0, 17)
    for name, bw in (("konno_and_ohmachi", 40.0), ("konno_and_ohmachi", 10.0), ("parzen", 1.5), ("savitzky_and_golay", 9), ("log_rectangular", 0.2),
                     ("log_triangular", 0.25), ("linear_rectangular", 2.0), ("linear_triangular", 3.0)):
        single = np.hstack([both(name, fpos, rows, np.array([fc]), bw) for fc in base_fcs])
        for oname, idx in (("ascending", np.arange(17)), ("descending", np.arange(17)[::-1]), ("shuffled", rng.permutation(17)),
                           ("two-ranges", np.r_[8:17, 0:8]), ("repeated", np.r_[0:17:2, 0:17:2])):
            got = both(name, fpos, rows, base_fcs[idx], bw)
            if not np.allclose(got, single[:, idx], rtol=1e-12, atol=0.0):
                bad = np.argwhere(~np.isclose(got, single[:, idx], rtol=1e-12, atol=0.0))[0]
                run.violation(f"vector:{name}:{oname}", f"{name}(bandwidth={bw}) with the centres in {oname} order: row {bad[0]} column {bad[1]} "
                              f"(fc={base_fcs[idx][bad[1]]:.4f}) is {got[bad[0], bad[1]]}, the same centre alone gives {single[bad[0], idx[bad[1]]]}",
                              dict(kind="smooth-vector2", op=name, bw=bw, order=oname))
            run.case(("vector2", name, bw, oname))
    return run.finish(
        rule="every subset of offset classes (quick: 10 classes per kernel family; thorough: 18 for sinc^4, sampled 20 000) x "
             "operators x bandwidths x centre frequencies on compiled and interpreted kernels; all Savitzky-Golay (m, centre) cases on "
             "three grids incl. off-grid centres; all FFT-grid (centre, bandwidth) cases; non-trivial = at least two contributing samples",
        exhaustive=run.quick)


if __name__ == "__main__":
    sys.path.insert(0, __file__.rsplit("/", 1)[0])
    main_wrapper(main)
