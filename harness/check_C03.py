"""C03 - one curve per window, in input order, independent of the other windows.

spec/Pipeline.tla: every arrangement of up to 4 (thorough: 5) recordings over
three time-step classes x three dissimilar-time-step policies x four classes of
the largest centre frequency relative to the Nyquist frequencies.  TLC checks
that the implementation-shaped algorithm (insertion-ordered counting, first
strict majority, group-by-group computation and index-map reordering) refines
the property-level result (kept set, original order, Nyquist refusal) and
exports every case.  Each case is realised with distinct seeded recordings and
processed jointly under every method family; row k of the result must equal the
curve of the k-th kept recording processed alone, shapes / centre frequencies /
finiteness are checked, and refusals must be errors.
"""
import sys
import warnings

import numpy as np

from vcommon import Run, tlc, require_tlc_ok, import_hvsrpy, main_wrapper

DT = {1: 0.005, 2: 0.01, 3: 0.02}
FCMAX = {0: 20.0, 1: 26.0, 2: 52.0, 3: 104.0}      # just above the Nyquist frequencies 25 / 50 / 100 Hz: the smoothing window still reaches real samples, so only the refusal stops a curve from being reported


def main():
    run = Run("C03")
    h = import_hvsrpy()
    cfg = "Pipeline_quick" if run.quick else "Pipeline_thorough"
    res = tlc("Pipeline", cfg, timeout=3000)
    require_tlc_ok(res, cfg)
    run.add_tlc(res, f"{cfg}: Refines OneRowPerKept OrderPreserved NyquistRefused")
    cases = [c for c in res.cases if isinstance(c, dict) and "dts" in c]
    rng = np.random.RandomState(run.seed + 3)
    if run.quick:
        # all arrangements are checked by TLC; replay every arrangement of <= 3 and a seeded half of the longer ones
        cases = [c for c in cases if len(c["dts"]) <= 3 or rng.rand() < 0.8]
    recs = {}
    for pos in range(1, 6):
        for d, dt in DT.items():
            n = 200 + 37 * pos + 11 * d
            t = np.arange(n) * dt
            # the recordings of one list differ by orders of magnitude in amplitude (2^-16 .. 2^16: m/s next to raw counts);
            # a curve is a ratio - it is not affected by its own scale, let alone by the scale of its neighbours
            amp_ = 2.0 ** (8 * (pos - 3))
            mk = lambda: (np.sin(2 * np.pi * rng.uniform(2, 9) * t) + 0.6 * rng.normal(size=n)) * amp_
            recs[(pos, d)] = h.SeismicRecording3C(h.TimeSeries(mk(), dt), h.TimeSeries(mk(), dt), h.TimeSeries(mk(), dt),
                                                  degrees_from_north=10.0 * pos)

    def settings(family, policy, fc):
        sm = dict(operator="konno_and_ohmachi", bandwidth=40, center_frequencies_in_hz=np.geomspace(2.0, FCMAX[fc], 6))
        kw = dict(smoothing=sm, handle_dissimilar_time_steps_by=policy, window_type_and_width=["tukey", 0.2])
        if family == "traditional":
            return h.HvsrTraditionalProcessingSettings(method_to_combine_horizontals="squared_average", **kw)
        if family == "single_azimuth":
            return h.HvsrTraditionalSingleAzimuthProcessingSettings(azimuth_in_degrees=30.0, **kw)
        if family == "rotdpp":
            return h.HvsrTraditionalRotDppProcessingSettings(azimuths_in_degrees=[0.0, 60.0, 120.0], ppth_percentile_for_rotdpp_computation=50.0, **kw)
        if family == "azimuthal":
            return h.HvsrAzimuthalProcessingSettings(azimuths_in_degrees=[0.0, 90.0], **kw)
        return h.HvsrDiffuseFieldProcessingSettings(**kw)

    alone_cache = {}

    def alone(family, key, fc):
        k = (family, key, fc)
        if k not in alone_cache:
            with warnings.catch_warnings():
                warnings.simplefilter("ignore")
                r = h.process([recs[key]], settings(family, "frequency_domain_resampling", fc))
            alone_cache[k] = rows_of(r)
        return alone_cache[k]

    def rows_of(r):
        if hasattr(r, "hvsrs"):
            return [np.array([i.amplitude[w] for i in r.hvsrs]) for w in range(r.hvsrs[0].n_curves)]
        return [row for row in np.atleast_2d(r.amplitude)]

    families = ["traditional", "single_azimuth", "rotdpp", "azimuthal"]
    for ci, c in enumerate(cases):
        dts, policy, fc = c["dts"], c["policy"], c["fc"]
        lst = [recs[(i + 1, d)] for i, d in enumerate(dts)]
        fams = families if (ci % 3 == 0 or len(dts) <= 2) else [families[ci % 4]]
        allowed = c["pres"]
        for fam in fams:
            st = settings(fam, policy, fc)
            key = f"{fam}|dts={dts}|{policy}|fcmax={FCMAX[fc]}"
            rep = dict(kind="pipeline", family=fam, case=c)
            try:
                with warnings.catch_warnings():
                    warnings.simplefilter("ignore")
                    r = h.process(lst, st)
            except ValueError as e:
                if not any(a["err"] for a in allowed):
                    run.violation(f"pipeline:unexpected-error:{fam}", f"{key}: raised ValueError ({e}); expected rows {[a['rows'] for a in allowed]}", rep)
                continue
            if all(a["err"] for a in allowed):
                run.violation(f"pipeline:nyquist-not-refused:{fam}", f"{key}: centre frequencies up to {FCMAX[fc]} Hz exceed the Nyquist frequency of a "
                              f"processed recording but a result was returned", rep)
                continue
            rows = rows_of(r)
            freq = np.asarray(r.frequency)
            if not np.array_equal(freq, np.asarray(st.smoothing["center_frequencies_in_hz"])):
                run.violation(f"pipeline:frequencies:{fam}", f"{key}: result frequencies differ from the requested centre frequencies", rep)
            ok = False
            for a in allowed:
                if a["err"] or len(a["rows"]) != len(rows):
                    continue
                if all(np.allclose(rows[k], alone(fam, (i, dts[i - 1]), fc)[0], rtol=1e-12, atol=0) for k, i in enumerate(a["rows"])):
                    ok = True
                    if a["rows"] != c["ires"]["rows"]:
                        run.drift += 1
            if not ok:
                got = []
                for row in rows:       # identify which recording each returned row belongs to (for the message)
                    m = [i for i in range(1, len(dts) + 1) if np.allclose(row, alone(fam, (i, dts[i - 1]), fc)[0], rtol=1e-9)]
                    got.append(m[0] if m else "?")
                run.violation(f"pipeline:rows:{fam}:{policy}", f"{key}: rows belong to recordings {got} ({len(rows)} rows); "
                              f"the property allows {[a['rows'] for a in allowed if not a['err']]}", rep)
            for row in rows:
                if not (np.all(np.isfinite(row)) and np.all(row >= 0)):
                    run.violation(f"pipeline:nonfinite:{fam}", f"{key}: a returned curve is not finite / non-negative", rep)
        # diffuse field: one curve for the kept set; mixed time steps among the kept recordings are an error
        if ci % 4 == 0:
            st = settings("diffuse_field", policy, fc)
            try:
                with warnings.catch_warnings():
                    warnings.simplefilter("ignore")
                    r = h.process(lst, st)
                errd = False
            except ValueError:
                errd = True
            must_err = all(a["err"] or len({dts[i - 1] for i in a["rows"]}) > 1 for a in allowed)
            may_err = any(a["err"] or len({dts[i - 1] for i in a["rows"]}) > 1 for a in allowed)
            if (errd and not may_err) or (not errd and must_err):
                run.violation("pipeline:diffuse_field", f"diffuse field dts={dts} {policy} fcmax={FCMAX[fc]}: error={errd}, expected error={must_err}",
                              dict(kind="pipeline", family="diffuse_field", case=c))
        nt = (tuple(dts), policy, fc) if len(set(dts)) > 1 and not all(a["err"] for a in allowed) else None
        run.case(nt, sample=dict(time_step_classes=dts, policy=policy, fcmax=FCMAX[fc], rows=c["ires"]["rows"])
                 if nt and len(run.samples) < 3 and policy != "frequency_domain_resampling" else None)
    # ---- "any count": long lists (the model's rows = kept recordings in input order does not depend on the count; the instances
    #      above have at most 5 recordings, an implementation may batch) - 260 and 515 short windows, two time steps, each
    #      inspected row against the recording processed alone --------------------------------------------------------------
    for count, probe in ((260, (0, 1, 127, 128, 255, 256, 257, 259)), (515, (0, 255, 256, 511, 512, 513, 514))):
        many = []
        for i in range(count):
            d = 1 if (i % 7) else 2
            n = 96 + (i % 5)
            t = np.arange(n) * DT[d]
            mk = lambda: np.sin(2 * np.pi * (3 + i % 4) * t + i) + 0.5 * rng.normal(size=n)
            many.append(h.SeismicRecording3C(h.TimeSeries(mk(), DT[d]), h.TimeSeries(mk(), DT[d]), h.TimeSeries(mk(), DT[d])))
        for fam in (families if count == 260 else families[:1]):
            st = settings(fam, "frequency_domain_resampling", 0)
            with warnings.catch_warnings():
                warnings.simplefilter("ignore")
                rows = rows_of(h.process(many, st))
            if len(rows) != count:
                run.violation(f"pipeline:many:{fam}:count", f"{count} recordings give {len(rows)} curves", dict(kind="pipeline-many", family=fam, count=count))
                continue
            for i in probe:
                with warnings.catch_warnings():
                    warnings.simplefilter("ignore")
                    alone_i = rows_of(h.process([many[i]], settings(fam, "frequency_domain_resampling", 0)))[0]
                if not np.allclose(rows[i], alone_i, rtol=1e-12, atol=0):
                    run.violation(f"pipeline:many:{fam}:row", f"{fam}: row {i} of {count} jointly processed recordings differs from that recording processed alone "
                                  f"(max rel diff {np.max(np.abs(rows[i] - alone_i) / np.abs(alone_i)):.2e})", dict(kind="pipeline-many", family=fam, count=count, row=i))
            run.case(("many", fam, count))
    # ---- the windows of ONE recording of a quiet site in m/s (amplitudes ~1e-10: every sample of every window is "close to" every
    #      other one in absolute terms, same length, same time step, same meta): each row is still the curve of ITS window
    nq, dtq = 128, 0.01
    quiet = h.SeismicRecording3C(*[h.TimeSeries((np.sin(2 * np.pi * (2 + c_) * np.arange(8 * nq + 1) * dtq * (1 + 0.3 * np.arange(8 * nq + 1) / (8 * nq))) +
                                                 0.7 * rng.normal(size=8 * nq + 1)) * 2.0 ** -33, dtq) for c_ in range(3)])
    wins = quiet.split(nq * dtq)
    for fam in families:
        with warnings.catch_warnings():
            warnings.simplefilter("ignore")
            rows = rows_of(h.process(wins, settings(fam, "frequency_domain_resampling", 0)))
            alone_rows = [rows_of(h.process([w_], settings(fam, "frequency_domain_resampling", 0)))[0] for w_ in wins]
        if len(rows) != len(wins) or not all(np.allclose(r_, a_, rtol=1e-12, atol=0) for r_, a_ in zip(rows, alone_rows)):
            bad_ = [i for i, (r_, a_) in enumerate(zip(rows, alone_rows)) if not np.allclose(r_, a_, rtol=1e-12, atol=0)]
            run.violation(f"pipeline:quiet-site:{fam}", f"{fam}: {len(wins)} windows of one recording with amplitudes ~1e-10: rows {bad_} are not the curves of their windows "
                          f"processed alone ({len(rows)} rows)", dict(kind="pipeline-quiet", family=fam))
        run.case(("quiet", fam))
    # ---- "sampled at exactly the requested centre frequencies": also when they are requested in descending or arbitrary order - the
    #      frequency axis of the result is the caller's vector as given (the caller's own array is not reordered either), and every
    #      column belongs to its frequency
    base_fcs = np.geomspace(2.0, FCMAX[0], 6)
    three = [recs[(1, 1)], recs[(2, 1)], recs[(3, 1)]]
    for fam in families + ["diffuse_field"]:
        outs = {}
        for oname, idx in (("ascending", np.arange(6)), ("descending", np.arange(6)[::-1]), ("shuffled", np.array([3, 0, 5, 1, 4, 2]))):
            st = settings(fam, "frequency_domain_resampling", 0)
            asked = base_fcs[idx].copy()
            mine = asked.copy()
            st.smoothing["center_frequencies_in_hz"] = asked
            with warnings.catch_warnings():
                warnings.simplefilter("ignore")
                out = h.process(three, st)
            freq_o = np.asarray(out.frequency if not hasattr(out, "hvsrs") else out.hvsrs[0].frequency, dtype=float)
            rows_o = np.array(rows_of(out), dtype=float)          # (..., centre frequency)
            outs[oname] = (idx, rows_o)
            if not (np.array_equal(freq_o, mine) and np.array_equal(np.asarray(asked), mine)):
                run.violation(f"pipeline:centre-frequency-order:{fam}", f"{fam}: centre frequencies requested in {oname} order {mine.tolist()}: the result is on {freq_o.tolist()} "
                              f"(the caller's array now reads {np.asarray(asked).tolist()})", dict(kind="pipeline-fc-order", family=fam, order=oname))
        ref_idx, ref_rows = outs["ascending"]
        for oname in ("descending", "shuffled"):
            idx, rows_o = outs[oname]
            if rows_o.shape != ref_rows.shape or not np.allclose(rows_o, ref_rows[..., idx], rtol=1e-12, atol=0):
                run.violation(f"pipeline:centre-frequency-order:{fam}", f"{fam}: the columns obtained for the {oname} request are not the columns of the same frequencies "
                              f"obtained for the ascending request", dict(kind="pipeline-fc-order", family=fam, order=oname))
        run.case(("fc-order", fam))
    return run.finish(
        rule="every arrangement of recordings over 3 time-step classes x 3 policies x 4 Nyquist classes of spec/Pipeline.tla (quick: all of "
             "length <= 3 and a seeded third of length 4), processed jointly under traditional / single-azimuth / RotDpp / azimuthal (and "
             "diffuse field) and compared row by row with each recording processed alone; non-trivial = mixed time steps and not refused",
        exhaustive=not run.quick)


if __name__ == "__main__":
    sys.path.insert(0, __file__.rsplit("/", 1)[0])
    main_wrapper(main)
