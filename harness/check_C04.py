"""C04 - sensor orientation and azimuth handling are geometrically consistent.

spec/Rotation.tla: orientations are Pythagorean rotations (rational cos / sin,
plus whole turns), samples integers, re-orientation in exact arithmetic.  TLC
checks on every behaviour (deployed angle x sample set x up to 3 targets) energy
preservation, composability, invertibility, untouched vertical, recovery of
polarised motion, the clockwise convention, and on complex spectral bins the
rotation invariance of |NS|^2+|EW|^2 and the 180-degree periodicity of the
single-azimuth spectrum.  Every behaviour is replayed on SeismicRecording3C
(degrees = atan2(s, c) + 360 turns) and compared with the exact samples; the
spectral relations are replayed on seeded noise through process(): single
azimuth a = orient to a then azimuth 0, a vs a + 180, azimuthal = stack of single
azimuth results, RotDpp monotone and bounded by min / max over the azimuths,
rotation-invariant combinations before / after re-orientation.
"""
import copy
import math
import sys
import warnings

import numpy as np

from vcommon import Run, tlc, require_tlc_ok, import_hvsrpy, main_wrapper

ANG = [(1, 1, 0, 1, 0), (0, 1, 1, 1, 0), (4, 5, 3, 5, 0), (12, 13, -5, 13, 0), (-1, 1, 0, 1, 0), (3, 5, 4, 5, 1), (0, 1, -1, 1, 0),
       (4, 5, 3, 5, -1), (-4, 5, 3, 5, 0), (5, 13, 12, 13, 0), (1, 1, 0, 1, 2), (-3, 5, -4, 5, 0)]
SAMPLES = [dict(ns=[3, -1], ew=[1, 4], vt=[2, 5]), dict(ns=[0, 7], ew=[-2, 0], vt=[1, 1])]


def deg(i):
    c1, c2, s1, s2, turns = ANG[i - 1]
    return math.degrees(math.atan2(s1 / s2, c1 / c2)) + 360.0 * turns


def main():
    run = Run("C04")
    h = import_hvsrpy()
    cfg = "Rotation_quick" if run.quick else "Rotation_thorough"
    res = tlc("RotationMC", cfg, timeout=3000, heap="8g")
    require_tlc_ok(res, cfg)
    run.add_tlc(res, f"{cfg}: EnergyPreserved Composable Invertible VerticalUntouched PolarisedMotionRecovered ClockwiseConvention "
                     "RotationInvariantEnergy Periodic180")
    beh = [c for c in res.cases if isinstance(c, dict) and "ops" in c]
    neg = tlc("RotationMC", "Rotation_neg", timeout=600, workers=4)
    run.notes["negative_config_windows_forget_orientation_breaks_Composable"] = (neg.violated == "Composable")
    if neg.violated != "Composable":
        raise Exception(f"the negative configuration (windows report north) did not violate Composable: {neg.violated}")
    run.notes["behaviours_with_split"] = sum(1 for b in beh if 0 in b["ops"])
    ts = h.TimeSeries
    for b in beh:
        s = SAMPLES[b["sset"] - 1]
        rec = h.SeismicRecording3C(ts(s["ns"], 0.01), ts(s["ew"], 0.01), ts(s["vt"], 0.01), degrees_from_north=deg(b["dep"]))
        for a in b["ops"]:
            if a == 0:        # Split: carry on with the first window (both samples) of the two-sample recording
                wins = rec.split(0.01)
                if not wins or wins[0].ns.n_samples != 2:
                    raise Exception("instance construction: the first window of a two-sample recording split at one time step should hold both samples")
                rec = wins[0]
            else:
                rec.orient_sensor_to(deg(a))
        exp_ns = np.array([x[0] / x[1] for x in b["ns"]])
        exp_ew = np.array([x[0] / x[1] for x in b["ew"]])
        key = f"deployed={deg(b['dep']):.4f} steps={[('split' if a == 0 else round(deg(a), 4)) for a in b['ops']]} samples={s}"
        rep = dict(kind="rotation", behaviour=b)
        if not (np.allclose(rec.ns.amplitude, exp_ns, rtol=1e-9, atol=1e-12) and np.allclose(rec.ew.amplitude, exp_ew, rtol=1e-9, atol=1e-12)):
            run.violation("orient:samples", f"{key}: ns={rec.ns.amplitude.tolist()} ew={rec.ew.amplitude.tolist()}, exact ns={exp_ns.tolist()} ew={exp_ew.tolist()}", rep)
        if not np.array_equal(rec.vt.amplitude, np.array(s["vt"], dtype=float)):
            run.violation("orient:vertical", f"{key}: the vertical component changed", rep)
        last = deg(b["cur"])
        if not (abs((rec.degrees_from_north - last) % 360.0) < 1e-9 or abs((rec.degrees_from_north - last) % 360.0 - 360.0) < 1e-9):
            run.violation("orient:degrees_from_north", f"{key}: degrees_from_north={rec.degrees_from_north}, last target {last}", rep)
        mcur = rec.meta.get("current degrees from north")
        if not isinstance(mcur, (int, float)) or min((mcur - last) % 360.0, (last - mcur) % 360.0) > 1e-9:
            run.violation("orient:meta", f"{key}: meta 'current degrees from north' = {mcur} but the sensor was last oriented to {last}", rep)
        # the orientation step of preprocessing is the same rotation
        if len(b["ops"]) == 1 and b["ops"][0] != 0:
            rec2 = h.SeismicRecording3C(ts(s["ns"], 0.01), ts(s["ew"], 0.01), ts(s["vt"], 0.01), degrees_from_north=deg(b["dep"]))
            st = h.HvsrPreProcessingSettings(orient_to_degrees_from_north=deg(b["ops"][0]), window_length_in_seconds=None, detrend=None,
                                             filter_corner_frequencies_in_hz=[None, None])
            with warnings.catch_warnings():
                warnings.simplefilter("ignore")
                out = h.preprocess([rec2], st)[0]
            if not (np.allclose(out.ns.amplitude, exp_ns, rtol=1e-9, atol=1e-12) and np.allclose(out.ew.amplitude, exp_ew, rtol=1e-9, atol=1e-12)):
                run.violation("orient:preprocess", f"{key}: preprocess(orient_to_degrees_from_north) gives ns={out.ns.amplitude.tolist()} "
                              f"ew={out.ew.amplitude.tolist()}, exact ns={exp_ns.tolist()} ew={exp_ew.tolist()}", rep)
        nt = (b["dep"], b["sset"], tuple(b["ops"])) if b["cur"] != b["dep"] else None
        run.case(nt, sample=dict(deployed_deg=deg(b["dep"]), targets_deg=[("split" if a == 0 else deg(a)) for a in b["ops"]], samples=s, exact_ns=exp_ns.tolist(),
                                 exact_ew=exp_ew.tolist()) if nt and len(run.samples) < 2 and len(b["ops"]) == 2 else None)

    # polarised motion along a true azimuth phi recorded by a sensor deployed at delta reappears on phi
    nang = 8 if run.quick else 12
    m = np.array([1.0, 3.0, -2.0, 0.5])
    for phi in range(1, nang + 1):
        for dl in range(1, nang + 1):
            p, d = math.radians(deg(phi)), math.radians(deg(dl))
            rn, re = m * math.cos(p - d), m * math.sin(p - d)
            for target in (0.0, 360.0, -360.0):
                rec = h.SeismicRecording3C(ts(rn, 0.01), ts(re, 0.01), ts(m * 0, 0.01), degrees_from_north=deg(dl))
                rec.orient_sensor_to(target)
                if not (np.allclose(rec.ns.amplitude, m * math.cos(p), atol=1e-9) and np.allclose(rec.ew.amplitude, m * math.sin(p), atol=1e-9)):
                    run.violation("orient:polarised-motion", f"motion along azimuth {deg(phi):.3f} recorded by a sensor at {deg(dl):.3f}, oriented to "
                                  f"{target}: ns={rec.ns.amplitude.tolist()} ew={rec.ew.amplitude.tolist()}, expected "
                                  f"{(m*math.cos(p)).tolist()} / {(m*math.sin(p)).tolist()}", dict(kind="polarised", phi=deg(phi), delta=deg(dl)))
            run.case(("pol", phi, dl) if phi != dl else None)
    hvsr_relations(run, h)
    split_commutes(run, h)
    return run.finish(
        rule="every behaviour of spec/Rotation.tla (deployed angle x sample set x up to 2 (thorough 3) targets, whole turns included) on "
             "SeismicRecording3C and the preprocessing orientation step; all (azimuth, deployed angle) pairs for polarised motion; spectral "
             "relations on seeded noise through process(); non-trivial = the final target differs from the deployed angle",
        exhaustive=True)


def split_commutes(run, h):
    """Composability across split: the windows of a recording deployed at an angle carry that orientation, so orienting the
    windows is the same as orienting the recording and splitting it (also through preprocess with a window length)."""
    rng = np.random.RandomState(run.seed + 44)
    ts = h.TimeSeries
    n, dt = 400, 0.01
    for deployed in (30.0, 0.0, 275.0, -45.0):
        mk = lambda: np.cumsum(rng.normal(size=n)) * 0.05 + rng.normal(size=n)
        rec = h.SeismicRecording3C(ts(mk(), dt), ts(mk(), dt), ts(mk(), dt), degrees_from_north=deployed)
        for target in (0.0, 60.0, 150.0, 400.0):
            rep = dict(kind="split-orient", deployed=deployed, target=target)
            a = copy.deepcopy(rec)
            a.orient_sensor_to(target)
            first = a.split(1.0)
            second = copy.deepcopy(rec).split(1.0)
            for w in second:
                if abs((w.degrees_from_north - deployed) % 360.0) > 1e-9:
                    run.violation("split:orientation-lost", f"a window of a recording deployed at {deployed} deg reports {w.degrees_from_north} deg", rep)
                    break
            for w in second:
                w.orient_sensor_to(target)
            ok = len(first) == len(second) and all(np.allclose(x.ns.amplitude, y.ns.amplitude, rtol=1e-12, atol=1e-12) and
                                                    np.allclose(x.ew.amplitude, y.ew.amplitude, rtol=1e-12, atol=1e-12) and
                                                    abs((x.degrees_from_north - y.degrees_from_north) % 360.0) < 1e-9 for x, y in zip(first, second))
            if not ok:
                run.violation("split:orient-commute", f"deployed {deployed} deg, target {target} deg: orienting the windows differs from orienting the recording and splitting it", rep)
            # the same through preprocess (orientation None keeps the deployed angle in the windows)
            st = h.HvsrPreProcessingSettings(orient_to_degrees_from_north=None, filter_corner_frequencies_in_hz=[None, None], window_length_in_seconds=1.0, detrend=None)
            with warnings.catch_warnings():
                warnings.simplefilter("ignore")
                wins = h.preprocess([copy.deepcopy(rec)], st)
            for w in wins:
                w.orient_sensor_to(target)
            if not (len(wins) == len(first) and all(np.allclose(x.ns.amplitude, y.ns.amplitude, rtol=1e-12, atol=1e-12) for x, y in zip(first, wins))):
                run.violation("split:orient-commute:preprocess", f"deployed {deployed} deg, target {target} deg: windows from preprocess(orient=None) oriented afterwards "
                              f"differ from orienting first", rep)
            run.case(("split-orient", deployed, target))


def hvsr_relations(run, h):
    rng = np.random.RandomState(run.seed + 4)
    nrec = 2 if run.quick else 12
    ts = h.TimeSeries
    sm = dict(operator="konno_and_ohmachi", bandwidth=40, center_frequencies_in_hz=np.geomspace(1.0, 20.0, 12))
    # "all processing settings": the defaults and a set in which every attribute shared by the families is non-default
    sm2 = dict(operator="parzen", bandwidth=1.2, center_frequencies_in_hz=np.geomspace(1.5, 30.0, 9))
    kws = [dict(smoothing=sm, window_type_and_width=["tukey", 0.1]),
           dict(smoothing=sm2, window_type_and_width=["tukey", 0.7], fft_settings=dict(n=4096), handle_dissimilar_time_steps_by="keeping_smallest_time_step")]
    for r_ in range(nrec * len(kws)):
        kw = copy.deepcopy(kws[r_ % len(kws)])
        n = int(rng.choice([500, 777]))
        mk = lambda: np.cumsum(rng.normal(size=n)) * 0.05 + rng.normal(size=n)
        rec = h.SeismicRecording3C(ts(mk(), 0.01), ts(mk(), 0.01), ts(mk(), 0.01), degrees_from_north=0.0)

        def proc(recs, st):
            with warnings.catch_warnings():
                warnings.simplefilter("ignore")
                return h.process(copy.deepcopy(recs), st)
        azs = [0.0, 25.0, 90.0, 140.0, 36.86989764584402]
        for a in azs:
            sa = proc([rec], h.HvsrTraditionalSingleAzimuthProcessingSettings(azimuth_in_degrees=a, **kw)).amplitude
            r2 = copy.deepcopy(rec)
            r2.orient_sensor_to(a)
            north = proc([r2], h.HvsrTraditionalSingleAzimuthProcessingSettings(azimuth_in_degrees=0.0, **kw)).amplitude
            if not np.allclose(sa, north, rtol=1e-9):
                run.violation("hvsr:single-azimuth-vs-orient", f"single azimuth {a}: differs from orienting the sensor to {a} and taking the north component",
                              dict(kind="hvsr-rel", a=a))
            sb = proc([rec], h.HvsrTraditionalSingleAzimuthProcessingSettings(azimuth_in_degrees=a + 180.0, **kw)).amplitude
            if not np.allclose(sa, sb, rtol=1e-9):
                run.violation("hvsr:periodic-180", f"single azimuth {a} and {a + 180} give different curves", dict(kind="hvsr-rel", a=a))
            run.case(("sa", r_, a))
        az_list = [0.0, 30.0, 60.0, 90.0, 120.0, 150.0] if r_ % 2 == 0 else [37.0, 37.25, 37.5, 127.3, 127.9, 179.5]
        azi = proc([rec], h.HvsrAzimuthalProcessingSettings(azimuths_in_degrees=az_list, **kw))
        stack = [proc([rec], h.HvsrTraditionalSingleAzimuthProcessingSettings(azimuth_in_degrees=a, **kw)).amplitude for a in az_list]
        for a, x, y in zip(az_list, azi.hvsrs, stack):
            if not np.allclose(x.amplitude, y, rtol=1e-12, atol=0.0):      # (to rounding: all azimuths may be rotated in one vectorised step)
                run.violation("hvsr:azimuthal-is-stack", f"azimuthal result at {a} deg differs from the single-azimuth result", dict(kind="hvsr-rel", a=a))
        if list(azi.azimuths) != az_list:
            run.violation("hvsr:azimuthal-azimuths", f"azimuths {azi.azimuths}", dict(kind="hvsr-rel"))
        # azimuth lists in an order of the user's choosing (rotations of a sorted list, shuffles, descending): entry i of the result
        # is the single-azimuth curve AT THE AZIMUTH THE RESULT REPORTS FOR ENTRY i, and the reported azimuths are the requested ones
        for az_any in ([45.0, 90.0, 135.0, 0.0], [100.0, 20.0, 160.0, 60.0, 140.0], [150.0, 100.0, 50.0], [90.0, 0.0, 45.0])[r_ % 2::2]:
            azi_ = proc([rec], h.HvsrAzimuthalProcessingSettings(azimuths_in_degrees=list(az_any), **kw))
            if sorted(map(float, azi_.azimuths)) != sorted(az_any) or len(azi_.hvsrs) != len(az_any):
                run.violation("hvsr:azimuthal-azimuths", f"asked for {az_any}, the result reports {list(azi_.azimuths)}", dict(kind="hvsr-rel", az=az_any))
                continue
            for a, x in zip(azi_.azimuths, azi_.hvsrs):
                y = proc([rec], h.HvsrTraditionalSingleAzimuthProcessingSettings(azimuth_in_degrees=float(a), **kw)).amplitude
                if not np.allclose(x.amplitude, y, rtol=1e-12, atol=0.0):
                    run.violation("hvsr:azimuthal-is-stack", f"azimuths given as {az_any}: the entry reported at {a} deg is not the single-azimuth result at {a} deg",
                                  dict(kind="hvsr-rel", a=float(a), az=az_any))
            run.case(("az-any", r_, tuple(az_any)))
        for az_rot in (az_list, [10.0, 30.0, 50.0], [35.0, 80.0], [20.0]):      # also sets that are not symmetric under a -> 180 - a
          st_all = np.array([proc([rec], h.HvsrTraditionalSingleAzimuthProcessingSettings(azimuth_in_degrees=a, **kw)).amplitude[0] for a in az_rot])
          prev = None
          for p in (0, 10, 25, 30, 33, 36, 50, 75, 90, 100):      # (30 / 33 / 36: several percentiles between the same two order statistics)
            rd = proc([rec], h.HvsrTraditionalRotDppProcessingSettings(azimuths_in_degrees=az_rot, ppth_percentile_for_rotdpp_computation=p, **kw)).amplitude[0]
            if np.any(rd < st_all.min(axis=0) * (1 - 1e-9)) or np.any(rd > st_all.max(axis=0) * (1 + 1e-9)):
                run.violation("hvsr:rotdpp-bounds", f"RotD{p} leaves the min/max envelope of the single-azimuth curves", dict(kind="hvsr-rel", p=p))
            if prev is not None and np.any(rd < prev * (1 - 1e-12)):
                run.violation("hvsr:rotdpp-monotone", f"RotD{p} is below the curve of the previous percentile", dict(kind="hvsr-rel", p=p))
            if p == 0 and not np.allclose(rd, st_all.min(axis=0), rtol=1e-9):
                run.violation("hvsr:rotd0-is-min", "RotD0 is not the minimum over the azimuths", dict(kind="hvsr-rel", p=p))
            if p == 100 and not np.allclose(rd, st_all.max(axis=0), rtol=1e-9):
                run.violation("hvsr:rotd100-is-max", "RotD100 is not the maximum over the azimuths", dict(kind="hvsr-rel", p=p))
            prev = rd
        # recordings with different time steps in one call (the default policy processes all of them): RotD0 / RotD100 of EVERY recording
        # are the minimum / maximum of ITS single-azimuth curves, each on the common centre frequencies
        if r_ % len(kws) == 0:
            n2 = 400
            rec2 = h.SeismicRecording3C(ts(mk()[:n2], 0.02), ts(mk()[:n2], 0.02), ts(mk()[:n2], 0.02), degrees_from_north=0.0)
            pair = [rec2, rec] if r_ % (2 * len(kws)) == 0 else [rec, rec2]
            az_m = [0.0, 50.0, 100.0, 150.0]
            sa_ = [np.atleast_2d(proc(pair, h.HvsrTraditionalSingleAzimuthProcessingSettings(azimuth_in_degrees=a, **kw)).amplitude) for a in az_m]
            for p, red in ((0, np.min), (100, np.max)):
                rd = np.atleast_2d(proc(pair, h.HvsrTraditionalRotDppProcessingSettings(azimuths_in_degrees=az_m, ppth_percentile_for_rotdpp_computation=p, **kw)).amplitude)
                for k_ in range(len(pair)):
                    want_ = red(np.array([s_[k_] for s_ in sa_]), axis=0)
                    if rd.shape[0] != len(pair) or not np.allclose(rd[k_], want_, rtol=1e-9):
                        run.violation("hvsr:rotdpp-mixed-time-steps", f"RotD{p} of recording {k_} (dt={pair[k_].ns.dt_in_seconds}) in a list with two time steps is not the "
                                      f"{'minimum' if p == 0 else 'maximum'} of its single-azimuth curves", dict(kind="hvsr-rel", p=p, k=k_))
            run.case(("rot-mixed-dt", r_))
        # rotation-invariant combinations do not depend on the sensor orientation
        for theta in (17.0, 90.0, -123.4, 400.0):
            r2 = copy.deepcopy(rec)
            r2.orient_sensor_to(theta)
            for method in ("squared_average", "quadratic_mean", "root_mean_square", "effective_amplitude_spectrum", "total_horizontal_energy", "vector_summation"):
                st = lambda: h.HvsrTraditionalProcessingSettings(method_to_combine_horizontals=method, **kw)
                if not np.allclose(proc([rec], st()).amplitude, proc([r2], st()).amplitude, rtol=1e-9):
                    run.violation(f"hvsr:rotation-invariant:{method}", f"{method} changes when the sensor is re-oriented by {theta} deg", dict(kind="hvsr-rel", theta=theta))
            if not np.allclose(proc([rec], h.HvsrDiffuseFieldProcessingSettings(**kw)).amplitude, proc([r2], h.HvsrDiffuseFieldProcessingSettings(**kw)).amplitude, rtol=1e-9):
                run.violation("hvsr:rotation-invariant:diffuse_field", f"diffuse field changes when the sensor is re-oriented by {theta} deg", dict(kind="hvsr-rel", theta=theta))
            run.case(("inv", r_, theta))


if __name__ == "__main__":
    sys.path.insert(0, __file__.rsplit("/", 1)[0])
    main_wrapper(main)
