"""C05 - statistics are the stated estimators over exactly the accepted windows.

spec/HvsrObject.tla + ExactStats.tla: TLC explores every history of range
updates, FDWRA runs, time-domain and manual rejections on small curve sets,
checks the mask/peak invariants and exports, for every reachable state, the
textbook estimators (exact rationals) over exactly the accepted windows.  The
whole graph is replayed on real HvsrTraditional objects (normal instance:
frequency = j*0.02 Hz, amplitude = level; lognormal instance: e^(j/4), e^(level/4))
and in every state every statistic accessor is compared with the exact value.
"""
import math
import sys
import warnings

import numpy as np

from vcommon import Run, tlc, require_tlc_ok, import_hvsrpy, main_wrapper, close
import hvsrobj
from hvsrobj import rat

ALPHA6 = [[1, 3, 1, 1, 1, 1], [1, 1, 4, 1, 1, 1], [1, 1, 1, 2, 1, 1], [1, 1, 1, 1, 5, 1],
          [1, 2, 1, 3, 1, 1], [1, 1, 1, 1, 1, 1], [1, 3, 3, 1, 1, 1], [1, 2, 3, 4, 5, 6]]
RTOL = 1e-9


class StatsHook:
    def __init__(self, run, hvsrpy):
        self.run, self.h = run, hvsrpy
        self.n = 0

    def cmp(self, name, got, exp, sline, cv, inst, atol=1e-12):
        self.n += 1
        got = np.asarray(got, dtype=float)
        exp = np.asarray(exp, dtype=float)
        ok = got.shape == exp.shape and bool(np.all(np.abs(got - exp) <= atol + RTOL * np.abs(exp)))
        if not ok:
            s = sline["s"]
            peakless = any(v and p == 0 for rv, rp in zip(s["vp"], s["pk"]) for v, p in zip(rv, rp))
            cls = "peakless-window-accepted" if peakless else "regular-state"
            self.run.violation(f"stat:{name}:{cls}",
                               f"{name} on instance {inst.name()} cv={cv} state={s}: got {got.tolist()} expected "
                               f"{exp.tolist()} (exact estimator over the accepted windows)",
                               dict(kind="stat", accessor=name, cv=cv, state=s, inst=inst.name(), expected=exp.tolist()))
        return ok

    def __call__(self, real, obj, sline, cv):
        inst = real.inst
        st = sline["az"][0]
        with warnings.catch_warnings():
            warnings.simplefilter("ignore")
            self.fn_stats(obj, st, sline, cv, inst)
            self.curve_stats(obj, st, sline, cv, inst)

    def light(self, real, obj, sline, cv):
        """cheap subset of the comparison, run after every single action on the history-carrying object"""
        inst = real.inst
        st = sline["az"][0]
        with warnings.catch_warnings():
            warnings.simplefilter("ignore")
            if st["nfn"] >= 2:
                self.cmp(f"mean_fn_frequency[{inst.dist_f}]", obj.mean_fn_frequency(inst.dist_f), inst.f_mean(rat(st["mf"])), sline, cv, inst)
                self.cmp(f"std_fn_frequency[{inst.dist_f}]", obj.std_fn_frequency(inst.dist_f), inst.f_std(rat(st["vf"])), sline, cv, inst)
                self.cmp(f"mean_fn_amplitude[{inst.dist_a}]", obj.mean_fn_amplitude(inst.dist_a), inst.a_mean(rat(st["ma"])), sline, cv, inst)
            if st["ncv"] >= 2:
                self.cmp(f"mean_curve[{inst.dist_a}]", obj.mean_curve(inst.dist_a), [inst.a_mean(rat(m)) for m in st["mc"]], sline, cv, inst)
                self.cmp(f"std_curve[{inst.dist_a}]", obj.std_curve(inst.dist_a), [inst.a_std(rat(v)) for v in st["vc"]], sline, cv, inst)

    def dists(self, d):
        return ["normal"] if d == "normal" else ["lognormal", "log-normal"]

    def fn_stats(self, obj, st, sline, cv, inst):
        if st["nfn"] < 2:
            return
        mf, vf, ma, va, cfa = (rat(st[k]) for k in ("mf", "vf", "ma", "va", "cfa"))
        for d in self.dists(inst.dist_f):
            self.cmp(f"mean_fn_frequency[{d}]", obj.mean_fn_frequency(d), inst.f_mean(mf), sline, cv, inst)
            self.cmp(f"std_fn_frequency[{d}]", obj.std_fn_frequency(d), inst.f_std(vf), sline, cv, inst)
            for n in (-2, -1, 1, 1.5, -40):       # -40: the lower bound lies far below zero under the normal distribution - it is what it is
                self.cmp(f"nth_std_fn_frequency[{d}]", obj.nth_std_fn_frequency(n, d), inst.f_nth(mf, vf, n), sline, cv, inst)
        for d in self.dists(inst.dist_a):
            self.cmp(f"mean_fn_amplitude[{d}]", obj.mean_fn_amplitude(d), inst.a_mean(ma), sline, cv, inst)
            self.cmp(f"std_fn_amplitude[{d}]", obj.std_fn_amplitude(d), inst.a_std(va), sline, cv, inst)
            for n in (-1, 2, -40):
                self.cmp(f"nth_std_fn_amplitude[{d}]", obj.nth_std_fn_amplitude(n, d), inst.a_nth(ma, va, n), sline, cv, inst)
        if inst.fenc == inst.aenc:
            fs, as_ = inst.cov_scale()
            exp = [[vf * fs * fs, cfa * fs * as_], [cfa * fs * as_, va * as_ * as_]]
            for d in self.dists(inst.dist_f):
                self.cmp(f"cov_fn[{d}]", obj.cov_fn(d), exp, sline, cv, inst)
        # lognormal: +n and -n symmetric about the median in log space; reciprocal (period) consistency
        if inst.fenc == "L":
            med = obj.mean_fn_frequency("lognormal")
            up, dn = obj.nth_std_fn_frequency(1, "lognormal"), obj.nth_std_fn_frequency(-1, "lognormal")
            self.cmp("nth_std symmetric in log space", math.log(up) - math.log(med), math.log(med) - math.log(dn), sline, cv, inst)
            pf = obj.peak_frequencies
            pf = pf[~np.isnan(pf)]
            per = self.h.HvsrTraditional(inst.freq, np.ones((1, len(inst.freq))))
            from hvsrpy.statistics import _nanmean_weighted, _nanstd_weighted
            self.cmp("median of 1/f is 1/median", _nanmean_weighted("lognormal", 1 / pf), 1 / inst.f_mean(mf), sline, cv, inst)
            self.cmp("log-std of 1/f equals log-std of f", _nanstd_weighted("lognormal", 1 / pf), inst.f_std(vf), sline, cv, inst)

    def curve_stats(self, obj, st, sline, cv, inst):
        if st["ncv"] < 2:
            return
        mc = [rat(x) for x in st["mc"]]
        vc = [rat(x) for x in st["vc"]]
        for d in self.dists(inst.dist_a):
            self.cmp(f"mean_curve[{d}]", obj.mean_curve(d), [inst.a_mean(m) for m in mc], sline, cv, inst)
            self.cmp(f"std_curve[{d}]", obj.std_curve(d), [inst.a_std(v) for v in vc], sline, cv, inst)
            self.cmp(f"nth_std_curve[{d}]", obj.nth_std_curve(-1, d), [inst.a_nth(m, v, -1) for m, v in zip(mc, vc)], sline, cv, inst)
            try:
                f, a = obj.mean_curve_peak(d)
                gi = inst.idx(float(f))
            except ValueError:
                gi, a = 0, None
            if gi not in st["mcp"]:
                self.run.violation("stat:mean_curve_peak", f"mean_curve_peak[{d}] on {inst.name()} cv={cv} state={sline['s']}: "
                                   f"grid index {gi} not in allowed {st['mcp']}",
                                   dict(kind="stat", accessor="mean_curve_peak", cv=cv, state=sline["s"], inst=inst.name()))
            elif gi > 0:
                self.cmp(f"mean_curve_peak amplitude[{d}]", a, inst.a_mean(mc[gi - 1]), sline, cv, inst)
            if gi != st["mcpi"]:
                self.run.drift += 1
        # EqualsFreshObject: an object built from the accepted windows alone gives the same statistics
        s = sline["s"]
        rows = [w for w in range(len(s["vw"][0])) if s["vw"][0][w]]
        rows_fn = [w for w in range(len(s["vp"][0])) if s["vp"][0][w] and s["pk"][0][w] != 0]
        if len(rows) >= 2 and rows_fn == rows:
            # (the constructor's own peak search would drop a peak-less window, so the comparison is
            #  made where every accepted window has a peak)
            fresh = self.h.HvsrTraditional(inst.freq, obj.amplitude[rows])
            r = obj._search_range_in_hz
            fresh.update_peaks_bounded(search_range_in_hz=r)
            d = inst.dist_a
            self.cmp("fresh-object mean_curve", obj.mean_curve(d), fresh.mean_curve(d), sline, cv, inst)
            self.cmp("fresh-object std_curve", obj.std_curve(d), fresh.std_curve(d), sline, cv, inst)
            self.cmp("fresh-object mean_fn_frequency", obj.mean_fn_frequency(inst.dist_f), fresh.mean_fn_frequency(inst.dist_f), sline, cv, inst)
            self.cmp("fresh-object std_fn_frequency", obj.std_fn_frequency(inst.dist_f), fresh.std_fn_frequency(inst.dist_f), sline, cv, inst)


def kwargs_by_reference(run, hvsrpy):
    """The object's statistics are those of its CURRENT peak definition: a find_peaks_kwargs dictionary that the caller changes in
    place and passes again (same search range) re-evaluates the peaks like a fresh dictionary with the same content would."""
    f = np.geomspace(0.5, 20, 14)
    rows = []
    for w in range(5):
        a = np.ones(14)
        a[2 + (w % 2)] = 6.0 + w
        a[7:12] = [2.0, 3.0, 3.5 + 0.1 * w, 3.0, 2.0]
        rows.append(a)
    rows = np.array(rows)
    for rng_ in ((None, None), (0.8, 18.0)):
        obj = hvsrpy.HvsrTraditional(f, rows)
        kw = dict(width=1)
        obj.update_peaks_bounded(search_range_in_hz=rng_, find_peaks_kwargs=kw)
        first = obj.mean_fn_frequency("lognormal")
        kw["width"] = 2                      # the caller edits its own dictionary ...
        obj.update_peaks_bounded(search_range_in_hz=rng_, find_peaks_kwargs=kw)      # ... and asks again
        fresh = hvsrpy.HvsrTraditional(f, rows)
        fresh.update_peaks_bounded(search_range_in_hz=rng_, find_peaks_kwargs=dict(width=2))
        same = (np.array_equal(obj._main_peak_frq, fresh._main_peak_frq, equal_nan=True) and np.array_equal(obj.valid_peak_boolean_mask, fresh.valid_peak_boolean_mask)
                and obj.mean_fn_frequency("lognormal") == fresh.mean_fn_frequency("lognormal") and np.array_equal(obj.mean_curve("lognormal"), fresh.mean_curve("lognormal")))
        if not same or first == fresh.mean_fn_frequency("lognormal"):
            run.violation("stat:kwargs-by-reference", f"range {rng_}: find_peaks_kwargs changed in place from width=1 to width=2 and passed again: window peaks "
                          f"{obj._main_peak_frq.tolist()}, mean fn {obj.mean_fn_frequency('lognormal')}; a fresh object with width=2 has {fresh._main_peak_frq.tolist()}, "
                          f"{fresh.mean_fn_frequency('lognormal')}" + ("" if first != fresh.mean_fn_frequency("lognormal") else " (instance does not discriminate)"),
                          dict(kind="kwargs-ref", range=rng_))
        run.case(("kwargs-ref", str(rng_)))


def zero_amplitude(run, hvsrpy):
    """Amplitudes of exactly 0 are legal input (the constructor asks for >= 0).  In log space such a sample sits at minus infinity:
    with it among the ACCEPTED windows the lognormal median of its column is 0 and the log-standard deviation is not a finite number
    (never a finite value computed from some of the accepted windows); with it in a REJECTED window, or under the normal
    assumption, it is a sample like any other."""
    import warnings
    f = np.array([1.0, 2.0, 3.0, 4.0, 5.0, 6.0])
    rows = np.array([[1.0, 2.0, 3.0, 0.0, 1.0, 1.5], [1.0, 3.0, 2.0, 1.0, 1.0, 1.2], [1.0, 2.5, 3.0, 2.0, 1.0, 1.1], [1.5, 2.2, 3.3, 2.4, 1.0, 1.3], [1.1, 2.1, 3.4, 1.9, 1.2, 1.4]])
    col = 3
    for rejected in ((), (0,), (1,), (0, 2)):
        obj = hvsrpy.HvsrTraditional(f, rows)
        for w in rejected:
            obj.valid_window_boolean_mask[w] = False
            obj.valid_peak_boolean_mask[w] = False
        acc = [w for w in range(len(rows)) if w not in rejected]
        with warnings.catch_warnings():
            warnings.simplefilter("ignore")
            mean_l, std_l = obj.mean_curve("lognormal"), obj.std_curve("lognormal")
            mean_n, std_n = obj.mean_curve("normal"), obj.std_curve("normal")
            with np.errstate(divide="ignore", invalid="ignore"):
                want_mean = np.exp(np.mean(np.log(rows[acc]), axis=0))
                want_std = np.std(np.log(rows[acc]), axis=0, ddof=1)
        others = [c for c in range(len(f)) if c != col]
        ok = (np.allclose(mean_l[others], want_mean[others], rtol=1e-12) and np.allclose(std_l[others], want_std[others], rtol=1e-10)
              and np.allclose(mean_n, np.mean(rows[acc], axis=0), rtol=1e-12) and np.allclose(std_n, np.std(rows[acc], axis=0, ddof=1), rtol=1e-10))
        if 0 in acc:
            ok = ok and mean_l[col] == 0.0 and not np.isfinite(std_l[col])
        else:
            ok = ok and np.isclose(mean_l[col], want_mean[col], rtol=1e-12) and np.isclose(std_l[col], want_std[col], rtol=1e-10)
        if not ok:
            run.violation("stat:zero-amplitude", f"windows {list(rejected)} rejected, window 0 is exactly 0 at {f[col]} Hz: lognormal mean curve {mean_l.tolist()}, "
                          f"std curve {std_l.tolist()}; the estimators over the accepted windows {acc} give {want_mean.tolist()} / {want_std.tolist()}",
                          dict(kind="zero-amp", rejected=list(rejected)))
        run.case(("zero-amp", rejected))
    # a REJECTED window may hold anything - also a value that is not finite (H/V of a dead vertical channel): it has no influence
    rows_inf = rows.copy()
    rows_inf[0, col] = 1.0
    rows_inf[1, 2] = np.inf
    obj = hvsrpy.HvsrTraditional(f, rows_inf)
    obj.valid_window_boolean_mask[1] = False
    obj.valid_peak_boolean_mask[1] = False
    acc = [0, 2, 3, 4]
    for dist, pre in (("lognormal", np.log), ("normal", lambda x: x)):
        with warnings.catch_warnings():
            warnings.simplefilter("ignore")
            m_, s_, n_ = obj.mean_curve(dist), obj.std_curve(dist), obj.nth_std_curve(1, dist)
        wm, ws = np.mean(pre(rows_inf[acc]), axis=0), np.std(pre(rows_inf[acc]), axis=0, ddof=1)
        wm_out = np.exp(wm) if dist == "lognormal" else wm
        wn = np.exp(wm + ws) if dist == "lognormal" else wm + ws
        if not (np.allclose(m_, wm_out, rtol=1e-12) and np.allclose(s_, ws, rtol=1e-10) and np.allclose(n_, wn, rtol=1e-10)):
            run.violation("stat:non-finite-in-rejected-window", f"{dist}: window 1 is rejected and holds inf at {f[2]} Hz: mean curve {np.asarray(m_).tolist()}, std curve "
                          f"{np.asarray(s_).tolist()}; the estimators over the accepted windows {acc} give {wm_out.tolist()} / {ws.tolist()}", dict(kind="inf-rejected", dist=dist))
        run.case(("inf-rejected", dist))


def main():
    run = Run("C05")
    hvsrpy = import_hvsrpy()
    quick = run.quick
    nw, alpha, alpha_n = (3, "Alpha6a", 6) if quick else (4, "Alpha6", 8)
    # 1. design level: all histories, invariants (quick: every window multiset over 6 curves, 3 windows;
    #    thorough: a seeded 1/60 of the 4096 ordered assignments of 4 windows over 8 curves)
    mc = hvsrobj.cfg_text(1, nw, 6, alpha, "Ranges6", "NSetA", "MaxItsA", "InitSorted" if quick else "InitEnv", export=False,
                          invariants=["TypeOK", "PeaksCurrent", "AccFnHavePeaks"], props=["TdStep", "CurvesFixed"])
    res, _ = hvsrobj.export_graph(mc, "C05-mc", {"VERIF_K": 60, "VERIF_SEED": run.seed}, timeout=3600)
    run.add_tlc(res, "HvsrObject exhaustive (I tier), invariants TypeOK/PeaksCurrent/AccFnHavePeaks/TdStep/CurvesFixed")
    # 1b. the implementation-shaped accessor (estimator over the mask, blind to missing peaks) agrees with the
    #     property iff NoPeaklessAccepted; TLC must find the history that breaks it (non-vacuity of the model)
    neg = hvsrobj.cfg_text(1, 3, 6, "Alpha6a", "Ranges6", "NSetA", "MaxItsA", "InitSorted", export=False,
                           invariants=["NoPeaklessAccepted"])
    import os
    path = os.path.join(hvsrobj.WORK, "C05-neg.cfg")
    open(path, "w").write(neg)
    nres = tlc("HvsrObjectMC", cfg=path[:-4], workers=8, timeout=600, workname="tlc-C05-neg")
    run.notes["negative_config_NoPeaklessAccepted_violated"] = (nres.violated == "NoPeaklessAccepted")
    if nres.violated != "NoPeaklessAccepted":
        raise hvsrobj.MachineryError("negative configuration did not produce the expected counterexample")
    # 2. export + replay
    k = 60 if quick else 400
    ex = hvsrobj.cfg_text(1, nw, 6, alpha, "Ranges6", "NSetA", "MaxItsA", "InitEnv", export=True)
    res, graph = hvsrobj.export_graph(ex, "C05-export", {"VERIF_K": k, "VERIF_SEED": run.seed}, timeout=2400, coverage=True)
    from vcommon import require_coverage       # non-vacuity: every action of the state machine was taken in the replayed graph
    run.notes["action_coverage"] = require_coverage(res, ["UpdateRange", "TdReject", "ManualReject", "Fdwra"], "C05-export")
    run.add_tlc(res, f"HvsrObject export, initial assignments with hash bucket {run.seed} mod {k}")
    consts = (f"  NA = 1\n  NW = {nw}\n  NF = 6\n  Alphabet <- {alpha}\n  Ranges <- Ranges6\n  NSet <- NSetA\n"
              f"  MaxIts <- MaxItsA\n  TdMasks <- AllMasks\n  Boxes <- Boxes6\n  InitSel <- InitAll\n  SThr <- SThrHalf\n")
    rp = hvsrobj.Replayer(run, hvsrpy, graph, ALPHA6[:alpha_n], 1, nw, 6, consts, focus={"ManualReject", "ManualSession", "PeakInStatistics", "Init"})
    import random
    pick = random.Random(run.seed)
    # the interactive session draws a figure per call: replay a seeded share of its transitions, mostly those in
    # which the box actually removes a window
    share_hit, share_miss = (0.08, 0.005) if quick else (0.05, 0.003)
    sess_filter = lambda a, t: a["op"] != "ManualSession" or pick.random() < (share_hit if t["t"]["vw"] != t["s"]["vw"] or t["t"]["r"] != t["s"]["r"] else share_miss)
    hook = StatsHook(run, hvsrpy)
    for fenc, aenc in (("N", "N"), ("L", "L"), ("N", "L"), ("L", "N")):
        rp.replay(hvsrobj.Instance(6, fenc, aenc), state_hook=hook, step_hook=hook.light, trans_filter=sess_filter)
    # nearly identical curves (amplitudes 8 + level * 2^-17, every value exact in binary): the scatter must survive the estimator
    rp.replay(hvsrobj.Instance(6, "N", "N", ascale=2.0 ** -17, aoff=8.0), state_hook=hook, trans_filter=lambda a, t: a["op"] != "ManualSession")
    rp.validate_pending()
    run.notes["replay"] = rp.stats
    # 3. the interactive manual rejection from EVERY initial assignment (chains of boxes), driven through the real
    #    manual_window_rejection with a scripted pointer; a seeded share of the sessions in which the box removes a window
    exm = hvsrobj.cfg_text(1, 3, 6, "Alpha6a", "Ranges6s", "NSetA", "MaxItsA", "InitAll", export=True, boxes="Boxes6", props=["ManualStep"],
                           nxt="NextManualOnly")
    res, gm = hvsrobj.export_graph(exm, "C05-manual", {}, timeout=2400)
    run.add_tlc(res, "HvsrObject NextManualOnly from all 216 assignments: ManualStep (never re-accepts, removes exactly the boxed windows)")
    constsm = consts.replace(f"NW = {nw}", "NW = 3").replace(alpha, "Alpha6a").replace("Ranges6\n", "Ranges6s\n")
    rpm = hvsrobj.Replayer(run, hvsrpy, gm, ALPHA6[:6], 1, 3, 6, constsm, focus={"ManualSession", "PeakInStatistics", "Init"})
    shm = (0.15, 0.005) if quick else (0.9, 0.03)
    mfilter = lambda a, t: pick.random() < (shm[0] if any(x and not y for x, y in zip(t["s"]["vw"][0], t["t"]["vw"][0])) and t["t"]["r"] == t["s"]["r"] else shm[1])
    for fenc, aenc in (("N", "N"), ("L", "L")):
        rpm.replay(hvsrobj.Instance(6, fenc, aenc), trans_filter=mfilter)
    rpm.validate_pending()
    run.notes["replay_manual_sessions"] = rpm.stats
    run.notes["accessor_comparisons"] = hook.n
    kwargs_by_reference(run, hvsrpy)
    zero_amplitude(run, hvsrpy)
    return run.finish(
        rule="every transition of the exported HvsrObject graph (range updates, FDWRA, time-domain and manual "
             "rejection) replayed on real HvsrTraditional objects in 4 value encodings; in every state all statistic "
             "accessors (11 x distribution names incl. the 'log-normal' alias) compared with the exact rational "
             "estimator over the accepted windows; non-trivial = transition that changes the abstract state",
        exhaustive=not quick)


if __name__ == "__main__":
    sys.path.insert(0, __file__.rsplit("/", 1)[0])
    main_wrapper(main)
