"""C06 - frequency-domain window rejection follows Cox et al. (2020) and terminates.

spec/HvsrObject.tla (FdwraIter): the published iteration in exact rational
arithmetic (bounds by (pk-mu)^2 vs n^2 var, |s_after - s_before| < 0.01 by
squaring, relative change of |mean fn - mean-curve peak|), property tier with
both outcomes at exact ties.  TLC checks on every Fdwra step: never re-accepts
(w.r.t. the state right after the entry peak search), 1 <= iterations <=
max_iterations, and the implementation-shaped outcome is a property-level
outcome.  All exported transitions are replayed on real HvsrTraditional /
HvsrAzimuthal objects (return value and masks compared), all orderings of the
sampled window multisets (permutation invariance), amplitudes rescaled
(scale invariance).  Lognormal fn: the real function is run from every reached
state and each recorded step is validated by TLC against the property tier with
the exp()-dependent criterion left open (rejection sets, monotonicity,
iteration count and zero-returns remain exact).
"""
import copy
import json
import sys
import warnings

import numpy as np

from vcommon import Run, import_hvsrpy, main_wrapper
import hvsrobj
from check_C05 import ALPHA6

ALPHA8 = [[1, 3, 1, 1, 1, 1, 1, 1], [1, 1, 4, 1, 1, 1, 1, 1], [1, 1, 1, 2, 1, 1, 1, 1], [1, 1, 1, 1, 5, 1, 1, 1],
          [1, 1, 1, 1, 1, 3, 1, 1], [1, 1, 1, 1, 1, 1, 4, 1], [1, 2, 1, 1, 1, 3, 1, 1], [1, 1, 1, 1, 1, 1, 1, 1]]
ALPHA8D = [[1, 6, 1, 1, 1, 1, 1, 1]] + ALPHA8[1:7]
NSETC = [[1, 1], [3, 2], [2, 1], [3, 1]]
MAXITSC = [1, 2, 3, 50]


class PermHook:
    """Collect FDWRA outcomes from initial states per window multiset; all orderings must agree."""

    def __init__(self):
        self.spec = {}
        self.real = {}


class LogFnHook:
    """From every reached state run the real FDWRA with a lognormal fn on deep copies and record 1-step traces."""

    def __init__(self, hvsrpy, rng, ranges, per_state=3):
        self.h, self.rng, self.ranges, self.per_state = hvsrpy, rng, ranges, per_state
        self.traces = []
        self.meta = []
        self.raised = 0
        self.alias_checked, self.alias_bad = 0, []

    def __call__(self, real, obj, sline, cv):
        inst = real.inst
        s = sline["s"]
        for _ in range(self.per_state):
            r = self.ranges[self.rng.randint(len(self.ranges))]
            n = NSETC[self.rng.randint(len(NSETC))]
            mi = MAXITSC[self.rng.randint(len(MAXITSC))]
            kw = bool(self.rng.randint(2))
            a = dict(op="Fdwra", r=list(r), kw=kw, n=n, mi=mi)
            o2 = copy.deepcopy(obj)
            try:
                with warnings.catch_warnings():
                    warnings.simplefilter("ignore")
                    ret = real.apply(o2, a)
            except (ValueError, ZeroDivisionError, FloatingPointError):
                self.raised += 1
                ev = dict(a, op="FdwraUndef", t=real.project(o2))
                self.traces.append(dict(cv=cv, s0=s, ev=[hvsrobj.ev_of(ev)]))
                self.meta.append((a, cv, s, "raised"))
                continue
            ev = dict(a, t=real.project(o2), it=ret)
            self.traces.append(dict(cv=cv, s0=s, ev=[hvsrobj.ev_of(ev)]))
            self.meta.append((a, cv, s, ret))
            # the documented alias "log-normal" names the same distribution: same decisions, same iteration count
            if inst.dist_f == "lognormal" or inst.dist_a == "lognormal":
                o3 = copy.deepcopy(obj)
                keep = (inst.dist_f, inst.dist_a)
                inst.dist_f, inst.dist_a = (d.replace("lognormal", "log-normal") for d in keep)
                try:
                    with warnings.catch_warnings():
                        warnings.simplefilter("ignore")
                        ret3 = real.apply(o3, a)
                    got3 = (real.project(o3), ret3)
                except Exception as e:
                    got3 = f"{type(e).__name__}: {e}"
                finally:
                    inst.dist_f, inst.dist_a = keep
                self.alias_checked += 1
                if got3 != (ev["t"], ret):
                    self.alias_bad.append((a, cv, s, (ev["t"], ret), got3))


def main():
    run = Run("C06")
    hvsrpy = import_hvsrpy()
    quick = run.quick
    rs = np.random.RandomState(run.seed)

    # ---- traditional, 5 windows on an 8-point grid --------------------------------------------
    nw, nf = (4, 8) if quick else (5, 8)
    k_ex = 210 if quick else 462          # of the 210 (NW=4) / 462 (NW=5) window multisets over 7 curves
    # (FdwraStep - the implementation-shaped outcome is one of the property-level outcomes, never re-accepts, 1 <= it <= max - is
    #  checked by TLC on every transition of the two-azimuth graph below and, in the thorough tier, of all graphs: evaluating the whole
    #  property-level outcome set on 18 000 transitions costs a quarter of an hour of CPU)
    ex = hvsrobj.cfg_text(1, nw, nf, "Alpha8d", "Ranges8", "NSetC", "MaxItsC", "InitPermsEnvQ", export=True, nxt="NextC06",
                          invariants=["TypeOK", "PeaksCurrent"], props=[] if quick else ["FdwraStep"])
    res, graph = hvsrobj.export_graph(ex, "C06-export", {"VERIF_K": k_ex, "VERIF_SEED": run.seed}, timeout=6000)
    run.add_tlc(res, "HvsrObject NextC06 (I tier, all orderings of the sampled window multisets): FdwraStep = never "
                     "re-accepts, 1<=it<=max, I outcome in P set; every transition exported")
    consts = (f"  NA = 1\n  NW = {nw}\n  NF = {nf}\n  Alphabet <- Alpha8d\n  Ranges <- Ranges8\n  NSet <- NSetC\n"
              f"  MaxIts <- MaxItsC\n  TdMasks <- AllMasks\n  InitSel <- InitAll\n  SThr <- SThrHalf\n")
    rp = hvsrobj.Replayer(run, hvsrpy, graph, ALPHA8D, 1, nw, nf, consts, focus={"Fdwra", "Init"})
    # code -> spec through the algorithm's own DEBUG trace: at every iteration the logged mean / std of fn and the
    # logged mean-curve peak must be those of the specification for the logged accept masks (this is where
    # distribution_fn / distribution_mc are observable independently of the final decisions)
    logstat = dict(iterations=0)

    def fdwra_hook(real, t, p, states, cv, its):
        inst = real.inst
        for it in its:
            if "vw" not in it or "vp" not in it:
                continue
            key = hvsrobj.skey(dict(r=p["r"], m=p["r"], pk=p["pk"], vw=[it["vw"]], vp=[it["vp"]]))
            sl = states.get(key)
            if sl is None:
                continue
            st = sl["az"][0]
            logstat["iterations"] += 1
            rep = dict(kind="fdwra-log", cv=cv, s=t["s"], a=t["a"], iteration=it, inst=inst.name())
            if st["nfn"] >= 2 and it.get("mean_fn_before") is not None:
                em, es = inst.f_mean(hvsrobj.rat(st["mf"])), inst.f_std(hvsrobj.rat(st["vf"]))
                if abs(it["mean_fn_before"] - em) > 1e-9 * abs(em) or abs(it["std_fn_before"] - es) > 1e-9 * abs(es) + 1e-12:
                    run.violation("fdwra:log:fn-statistics", f"{t['a']} cv={cv} ({inst.name()}): iteration {it['k']} logs mean/std fn "
                                  f"{it['mean_fn_before']}/{it['std_fn_before']} for masks {it['vp']}, exact {em}/{es} under distribution_fn={inst.dist_f}", rep)
            if st["ncv"] >= 2 and it.get("mc_peak_frq_before") is not None:
                gi = inst.idx(it["mc_peak_frq_before"])
                if gi not in st["mcp"]:
                    run.violation("fdwra:log:mean-curve-peak", f"{t['a']} cv={cv} ({inst.name()}): iteration {it['k']} uses the mean-curve peak at grid index "
                                  f"{gi} for accepted windows {it['vw']}; under distribution_mc={inst.dist_a} the mean curve peaks at {st['mcp']}", rep)
    rp.fdwra_hook = fdwra_hook
    import zlib

    def share(k, m):
        """quick tier: instance k of m replays the transitions whose hash is k modulo m (every transition is replayed by one instance)"""
        if not quick:
            return None
        return lambda a, t: zlib.crc32(json.dumps([t["s"], t["a"]], sort_keys=True).encode()) % m == k
    for k_, inst in enumerate((hvsrobj.Instance(nf, "N", "N"), hvsrobj.Instance(nf, "N", "L", q=2.0)) + (() if quick else (hvsrobj.Instance(nf, "N", "N", ascale=8.0),))):
        rp.replay(inst, trans_filter=share(k_, 2))
    run.notes["fdwra_log_iterations_checked"] = logstat["iterations"]
    # the same through a fixed set where the arithmetic and geometric mean curves peak at different frequencies
    exd = hvsrobj.cfg_text(1, 4, nf, "Alpha8d", "Ranges8", "NSetC", "MaxItsC", "InitTallMedium", export=True, nxt="NextC06", props=[] if quick else ["FdwraStep"])
    resd, gd = hvsrobj.export_graph(exd, "C06-tallmedium", {}, timeout=3000)
    run.add_tlc(resd, "HvsrObject NextC06 from the orderings of {tall tent, 3 medium tents}: arithmetic vs geometric mean-curve peak differ")
    constsd = consts.replace(f"NW = {nw}", "NW = 4")
    rpd = hvsrobj.Replayer(run, hvsrpy, gd, ALPHA8D, 1, 4, nf, constsd, focus={"Fdwra", "Init"})
    rpd.fdwra_hook = fdwra_hook
    # (rescaling all amplitudes - ascale 8 - must not change any decision: same graph, same expected outcomes)
    # (... nor rescaling them to the size of ground velocities in m/s: 2^-30 ~ 1e-9 - every level stays an exact float)
    for k_, inst in enumerate((hvsrobj.Instance(nf, "N", "L", q=2.0), hvsrobj.Instance(nf, "N", "N"), hvsrobj.Instance(nf, "N", "N", ascale=8.0), hvsrobj.Instance(nf, "L", "L", alias=True),
                               hvsrobj.Instance(nf, "N", "N", ascale=2.0 ** -30))):
        rpd.replay(inst, trans_filter=share(k_ % 3, 3) if k_ < 3 else None)
    rpd.validate_pending()
    run.notes["fdwra_log_iterations_checked"] = logstat["iterations"]
    # order of the windows: in the TLC state graph itself, the Fdwra transitions leaving the initial state of
    # every ordering of a window multiset must give the same multiset of (curve, accepted) pairs and the same
    # iteration count (the real objects are compared with each ordering's transitions above; a real outcome
    # that deviates is judged by the property tier, which differs only by the both-ways outcomes at exact ties)
    perm = {}
    for ck in graph.groups():
        cv = json.loads(ck)
        for sk, tl in graph.trans[ck].items():
            for t in tl:
                s_ = t["s"]
                if t["a"]["op"] != "Fdwra" or s_["r"] != [-99, -99] or s_["vp"][0] != [x != 0 for x in s_["pk"][0]] or s_["vw"] != s_["vp"]:
                    continue
                a = dict(t["a"])
                it = a.pop("it")
                key = (tuple(sorted(cv[0])), json.dumps(a, sort_keys=True))
                perm.setdefault(key, set()).add((tuple(sorted(zip(cv[0], t["t"]["vp"][0]))), it))
    bad = {k: v for k, v in perm.items() if len(v) > 1}
    run.notes["permutation_groups_compared"] = len(perm)
    if bad:
        k = sorted(bad)[0]
        raise hvsrobj.MachineryError(f"the specification's FDWRA is not permutation-equivariant: {k} -> {bad[k]}")

    # ---- a fine frequency grid (0.002 Hz per step, 0.01 Hz = 5 steps): here the standard deviation changes by less than 0.01 Hz
    #      from pass to pass and the relative-change criterion on |mean fn - mean-curve peak| is the one that decides
    ex5 = hvsrobj.cfg_text(1, 4, nf, "Alpha8d", "Ranges8", "NSetC", "MaxItsC", "InitSpread", sthr="SThrFive", export=True, nxt="NextC06")
    res5, graph5 = hvsrobj.export_graph(ex5, "C06-export5", {}, timeout=6000)
    run.add_tlc(res5, "HvsrObject NextC06 with SThr = 5 grid steps (fine grid) export")
    consts5 = consts.replace("SThr <- SThrHalf", "SThr <- SThrFive").replace(f"NW = {nw}", "NW = 4")
    rp5 = hvsrobj.Replayer(run, hvsrpy, graph5, ALPHA8D, 1, 4, nf, consts5, focus={"Fdwra", "Init"})
    rp5.replay(hvsrobj.Instance(nf, "N", "N", fscale=0.002))
    rp5.validate_pending()
    run.notes["replay_fine_grid"] = rp5.stats
    # ---- the zero guards, decided: grid step 1/64 Hz (all arithmetic on equal / symmetric peak sets is exact in binary, so the
    #      property tier does not leave "== 0" open - constant ZeroExact), the library's logger at the level a user's process has
    #      (no DEBUG trace is requested by this replayer): all peaks equal after a pass, mean fn = mean-curve peak
    exz = hvsrobj.cfg_text(1, 4, nf, "Alpha8d", "Ranges8", "NSetC", "MaxItsC", "InitZero", sthr="SThrDyadic", export=True, nxt="NextC06", zero_exact=True,
                           props=["FdwraStep"])
    resz, graphz = hvsrobj.export_graph(exz, "C06-exportz", {}, timeout=6000)
    run.add_tlc(resz, "HvsrObject NextC06 from window sets that reach the zero guards, SThr = 0.64 steps, ZeroExact (FdwraStep) export")
    constsz = consts.replace("SThr <- SThrHalf", "SThr <- SThrDyadic").replace(f"NW = {nw}", "NW = 4") + "  ZeroExact = TRUE\n"
    rpz = hvsrobj.Replayer(run, hvsrpy, graphz, ALPHA8D, 1, 4, nf, constsz, focus={"Fdwra", "Init"})
    for inst in (hvsrobj.Instance(nf, "N", "N", fscale=1.0 / 64), hvsrobj.Instance(nf, "N", "L", fscale=1.0 / 64, q=2.0)):
        rpz.replay(inst)
    rpz.validate_pending()
    run.notes["replay_zero_guards"] = rpz.stats
    # ---- lognormal fn: code -> spec, criterion with exp() left open ------------------------------
    ranges = [[-99, -99], [-99, 12], [4, -99], [4, 14]]
    lh = LogFnHook(hvsrpy, rs, ranges, per_state=2 if quick else 4)
    rp_l = hvsrobj.Replayer(run, hvsrpy, graph, ALPHA8D, 1, nw, nf, consts, focus={"Fdwra", "Init"})
    for inst in (hvsrobj.Instance(nf, "L", "L", q=50.0), hvsrobj.Instance(nf, "L", "N", q=50.0)):
        rp_l.replay(inst, state_hook=lh, max_groups=40 if quick else None)
    rp.validate_pending()
    rp_l.validate_pending()
    traces = lh.traces
    cap = 500 if quick else 8000
    if len(traces) > cap:
        idx = sorted(rs.choice(len(traces), cap, replace=False).tolist())
        traces = [traces[i] for i in idx]
        meta = [lh.meta[i] for i in idx]
    else:
        meta = lh.meta
    # grid step of the lognormal instance is 1/q = 0.02 in log space: 0.01 = half a step (SThrHalf)
    consts_l = consts + "  DFree = TRUE\n"
    acc = hvsrobj.validate_traces(traces, consts_l, "trace-C06-logfn")
    run.traces += len(traces)
    for i, (tr, m) in enumerate(zip(traces, meta), start=1):
        run.case(("logfn", json.dumps(tr["ev"][0]["t"]["vp"]), json.dumps(tr["s0"]["vp"])) if tr["ev"][0]["t"]["vp"] != tr["s0"]["vp"] else None,
                 replayed=False)
        if i not in acc:
            a, cv, s, ret = m
            run.violation("fdwra:lognormal-fn", f"lognormal fn: {a} on cv={cv} from {s}: real outcome {tr['ev'][0]['t']} "
                          f"returned {ret} is not an outcome of the published algorithm (property tier, exp-criterion open)",
                          dict(kind="fdwra-logfn", trace=tr))
    for a, cv, s, want, got3 in lh.alias_bad:
        run.violation("fdwra:alias-differs", f"{a} on cv={cv} from {s}: with the alias 'log-normal' the outcome is {got3}, with 'lognormal' {want}",
                      dict(kind="fdwra-alias", a=a, cv=cv, s=s))
    run.notes["alias_runs_compared"] = lh.alias_checked
    run.notes["lognormal_fn_traces"] = len(traces)
    run.notes["lognormal_fn_undefined"] = lh.raised
    run.notes["replay_traditional"] = rp.stats

    # ---- azimuthal: 2 azimuths x 3 windows --------------------------------------------------------
    ex2 = hvsrobj.cfg_text(2, 3, 6, "Alpha6a", "Ranges6s", "NSetC", "MaxItsC", "InitEnvAz", export=True, nxt="NextC06",
                           props=["FdwraStep"])
    res, graph2 = hvsrobj.export_graph(ex2, "C06-export2", {"VERIF_K": 30000 if quick else 3000, "VERIF_SEED": run.seed}, timeout=3000)
    run.add_tlc(res, "HvsrObject NA=2 NextC06 export + FdwraStep")
    consts2 = ("  NA = 2\n  NW = 3\n  NF = 6\n  Alphabet <- Alpha6a\n  Ranges <- Ranges6s\n  NSet <- NSetC\n"
               "  MaxIts <- MaxItsC\n  TdMasks <- AllMasks\n  InitSel <- InitAll\n  SThr <- SThrHalf\n")
    rp2 = hvsrobj.Replayer(run, hvsrpy, graph2, ALPHA6[:6], 2, 3, 6, consts2, focus={"Fdwra", "Init"})
    rp2.replay(hvsrobj.Instance(6, "N", "N"))
    rp2.validate_pending()
    run.notes["replay_azimuthal"] = rp2.stats
    return run.finish(
        rule="every Fdwra transition of the exported graphs (n in {1,3/2,2,3}, max_iterations in {1,2,3,50}, 4 ranges, "
             "cached/uncached entry, arbitrary start masks) replayed on real objects in 3 encodings incl. amplitude x8; "
             "all orderings of sampled window multisets; lognormal-fn runs recorded and validated against the property "
             "tier; non-trivial = the step changes the masks",
        exhaustive=False)


if __name__ == "__main__":
    sys.path.insert(0, __file__.rsplit("/", 1)[0])
    main_wrapper(main)
