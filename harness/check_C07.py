"""C07 - readers put the stored samples on the right components for every format.

spec/Readers.tla: file sets of every supported format over all 6 orders of the
three traces / files / columns, channel-naming variants and injected defects;
property tier (component map or error), implementation tier (today's selection
rules); TLC checks I => P, order irrelevance and refusal of defects and exports
every case.  The harness WRITES the files of each case (miniSEED in one and three
files and SAC of both byte orders with obspy; SAF, MiniShark and PEER as text
with both line-ending conventions), reads them through read_single / read and
compares samples (exact; single precision for the integer text formats), time
step, degrees_from_north, file names in meta, or the error.
spec/ReadArgs.tla: read() with scalar / per-recording / omitted
degrees_from_north and reader options.  The shipped sample.gcf is compared with
a direct obspy read (GCF cannot be written with the tools present).
"""
import os
import sys
import warnings

import numpy as np

from vcommon import Run, tlc, require_tlc_ok, import_hvsrpy, main_wrapper, workdir, REPO

# "all sampling rates": also rates whose sampling interval is not a whole number of microseconds (75, 30, 128, 300 Hz)
FS = {"mseed1": [100.0, 75.0, 128.0], "mseed3": [50.0, 30.0, 300.0], "sac_le": [200.0], "sac_be": [40.0], "saf": [128.0, 75.0, 100.0],
      "minishark": [250.0, 75.0], "peer": [50.0]}


def vectors(rng, n, integer):
    if integer:
        return [rng.randint(-30000, 30000, size=n).astype(np.float64) for _ in range(3)]
    return [np.round(rng.normal(size=n) * 100, 3).astype(np.float32).astype(np.float64) for _ in range(3)]


def write_case(c, wd, rng, eol):
    """returns (argument for read_single, vectors, expected dt, expected degrees (None = not judged))"""
    import obspy
    from obspy import Trace, Stream, UTCDateTime
    fmt, perm, defect, names = c["fmt"], c["perm"], c["defect"], c["names"]
    n = int(rng.randint(40, 90))
    fs = float(FS[fmt][rng.randint(len(FS[fmt]))])
    stem = os.path.join(wd, f"{fmt}_{''.join(map(str, perm))}_{c['nv']}_{defect.replace('+', 'p').replace('-', 'm')}")
    if fmt in ("mseed1", "mseed3", "sac_le", "sac_be"):
        vec = vectors(rng, n, False)
        # what a file stores is what comes back - for every sample encoding of miniSEED: single precision (as before), 32-bit integer
        # counts beyond 2^24 (a 32-bit digitiser, a large offset: not representable in single precision) and double precision
        enc = "f4"
        if fmt in ("mseed1", "mseed3") and defect == "none":
            enc = ("f4", "i4", "f8")[(c["nv"] + sum(perm)) % 3]
        if enc == "i4":
            vec = [np.round(v * 1000.0) + 2.0 ** 26 + 1.0 + 2.0 * k_ for k_, v in enumerate(vec)]
        elif enc == "f8":
            vec = [v * (1.0 + 2.0 ** -40) + 2.0 ** -30 for v in vec]
        else:
            vec = [v.astype(np.float32).astype(np.float64) for v in vec]
        order = list(perm)
        labels = [names[v - 1] for v in order]
        data = [vec[v - 1] for v in order]
        if defect == "missing":
            labels, data = labels[:2], data[:2]
        elif defect == "duplicate":
            labels[1], data[1] = labels[0], data[0]
        elif defect == "unknown":
            labels[1] = "BH1"
        trs = [Trace(d.astype({"f4": np.float32, "i4": np.int32, "f8": np.float64}[enc]), header=dict(sampling_rate=fs, channel=l, station="VRF", network="XX", starttime=UTCDateTime(2021, 3, 4)))
               for l, d in zip(labels, data)]
        if fmt == "mseed1":
            fn = stem + ".mseed"
            Stream(trs).write(fn, format="MSEED")
            arg = fn
        else:
            arg = []
            for k, tr in enumerate(trs):
                if fmt == "mseed3":
                    fn = f"{stem}_{k}.mseed"
                    Stream([tr]).write(fn, format="MSEED")
                else:
                    fn = f"{stem}_{k}.sac"
                    Stream([tr]).write(fn, format="SAC", byteorder="<" if fmt == "sac_le" else ">")
                arg.append(fn)
        return arg, vec, 1.0 / fs, 0.0
    if fmt == "saf":
        vec = vectors(rng, n, True)
        ids = {1: "N", 2: "E", 3: "V"}
        north_rot = int(rng.choice([0, 15, 350]))
        ndat = n + (1 if defect == "count+1" else -1 if defect == "count-1" else 0)
        lines = ["SESAME ASCII data format (saf) v. 1    (this line must not be modified)", f"SAMP_FREQ = {int(fs)}", f"NDAT = {ndat:010d}",
                 "START_TIME = 2021 11 22 13 31 10.000", "SENSOR_TYPE = Velocity", f"NORTH_ROT = {north_rot}", "UNITS = Counts"]
        lines += [f"CH{k}_ID = {ids[perm[k]]}" for k in range(3)]
        lines += ["####--------------------------------"]
        for t in range(n):
            lines.append(" ".join(str(int(vec[perm[k] - 1][t])) for k in range(3)))
        fn = stem + ".saf"
        with open(fn, "w", newline="") as f:
            f.write(eol.join(lines) + eol)
        # orientation is judged when the first horizontal column is N (see DESIGN.md: the E-first rule is implementation tier)
        deg = float(north_rot) if perm[1] == 1 else None
        return fn, vec, 1.0 / fs, deg
    if fmt == "minishark":
        vec = vectors(rng, n, True)
        gain, conv = c.get("gc") or (int(rng.choice([1, 4, 8])), int(rng.choice([1, 2, 128])))
        nhead = n + (1 if defect == "count+1" else -1 if defect == "count-1" else 0)
        lines = ["#MiniShark data file", f"#Sample rate (sps):\t{int(fs)}", f"#Sample number:\t{nhead}", f"#Gain:\t{gain}", f"#Conversion factor:\t{conv}"]
        for t in range(n):       # columns: vertical, north, east
            lines.append(f"{int(vec[2][t])}\t{int(vec[0][t])}\t{int(vec[1][t])}")
        fn = stem + ".minishark"
        with open(fn, "w", newline="") as f:
            f.write(eol.join(lines) + eol)
        scaled = [(v.astype(np.float32) / np.float32(gain) / np.float32(conv)).astype(np.float64) for v in vec]
        return fn, scaled, 1.0 / fs, 0.0
    if fmt == "peer":
        vec = [np.array([float("%.7E" % x) for x in rng.normal(size=n) * 0.1]) for _ in range(3)]
        arg = []
        for k in range(3):
            v = perm[k]
            if defect == "missing" and k == 2:
                continue
            label = names[v - 1]
            if defect == "unknown" and v == 3:
                label = "XYZ"
            nhead = n + ((1 if defect == "count+1" else -1 if defect == "count-1" else 0) if k == 0 else 0)
            lines = ["PEER NGA STRONG MOTION DATABASE RECORD", f"Synthetic-01, 1/17/1994, Verification Station, {label}",
                     "VELOCITY TIME SERIES IN UNITS OF CM/S", f"NPTS=   {nhead}, DT=   .0200 SEC"]
            row = []
            for x in vec[v - 1]:
                row.append("  %.7E" % x)
                if len(row) == 5:
                    lines.append("".join(row)); row = []
            if row:
                lines.append("".join(row))
            fn = f"{stem}_{k}.vt2"
            with open(fn, "w", newline="") as f:
                f.write(eol.join(lines) + eol)
            arg.append(fn)
        return arg, vec, 0.02, float(c["degrees"])
    raise ValueError(fmt)


def main():
    run = Run("C07")
    h = import_hvsrpy()
    wd = workdir("C07")
    rng = np.random.RandomState(run.seed + 7)
    res = tlc("Readers", "Readers", timeout=600)
    require_tlc_ok(res, "Readers")
    run.add_tlc(res, "Readers: Refines OrderIrrelevant DefectsRefused")
    cases = [c for c in res.cases if isinstance(c, dict) and "fmt" in c]
    # MiniShark: every combination of gain and conversion factor (the samples are divided by both, whatever their values)
    cases = cases + [dict(c, gc=(g_, cv_)) for c in cases if c["fmt"] == "minishark" and c["defect"] == "none"
                     for g_ in (1, 4, 8) for cv_ in (1, 2, 128)]
    reps = 1 if run.quick else 4
    for rep_i in range(reps):
        for ci, c in enumerate(cases):
            for eol in (("\n", "\r\n") if c["fmt"] in ("saf", "minishark", "peer") else ("\n",)):
                arg, vec, dt, deg = write_case(c, wd, rng, eol)
                key = f"{c['fmt']} order={c['perm']} names={c['names']} defect={c['defect']} eol={eol!r}"
                rep = dict(kind="reader", case=c, eol=eol)
                allowed = c["allowed"]
                ok_err = any(a["ns"] == 0 for a in allowed)
                ok_rec = any(a["ns"] == 1 for a in allowed)
                try:
                    with warnings.catch_warnings():
                        warnings.simplefilter("ignore")
                        via_read = (ci + rep_i) % 3 == 0
                        r = h.read([arg])[0] if via_read else h.read_single(arg)
                except Exception as e:
                    if not ok_err:
                        run.violation(f"reader:{c['fmt']}:refused-valid", f"{key}: raised {type(e).__name__}: {e}", rep)
                    run.case()
                    _cleanup(arg)
                    continue
                if not ok_rec:
                    run.violation(f"reader:{c['fmt']}:defect-accepted:{c['defect']}", f"{key}: a recording was returned for a defective file set", rep)
                    _cleanup(arg)
                    continue
                if c["itierOnly"]:
                    run.inconclusive += 1
                    _cleanup(arg)
                    continue
                got = dict(ns=r.ns.amplitude, ew=r.ew.amplitude, vt=r.vt.amplitude)
                for comp, v in (("ns", 1), ("ew", 2), ("vt", 3)):
                    if got[comp].shape != vec[v - 1].shape or not np.array_equal(got[comp], vec[v - 1]):
                        which = [k + 1 for k in range(3) if got[comp].shape == vec[k].shape and np.array_equal(got[comp], vec[k])]
                        run.violation(f"reader:{c['fmt']}:component:{comp}", f"{key}: component {comp} holds "
                                      f"{'vector ' + str(which[0]) + ' (1=N,2=E,3=Z)' if which else 'samples that are not the stored ones'} "
                                      f"(first samples {got[comp][:3].tolist()}, stored {vec[v-1][:3].tolist()})", rep)
                if abs(r.ns.dt_in_seconds - dt) > 1e-12 or r.ew.dt_in_seconds != r.ns.dt_in_seconds or r.vt.dt_in_seconds != r.ns.dt_in_seconds:
                    run.violation(f"reader:{c['fmt']}:dt", f"{key}: time step {r.ns.dt_in_seconds}, file says {dt}", rep)
                if deg is not None and abs((r.degrees_from_north - deg) % 360.0) > 1e-9:
                    run.violation(f"reader:{c['fmt']}:degrees", f"{key}: degrees_from_north {r.degrees_from_north}, metadata says {deg}", rep)
                fnames = r.meta.get("file name(s)")
                want = [str(a) for a in arg] if isinstance(arg, list) else str(arg)
                if fnames != want:
                    run.violation(f"reader:{c['fmt']}:meta", f"{key}: meta file name(s) {fnames}, read from {want}", rep)
                # explicit degrees_from_north wins over the file's metadata - also the values 0 and 0.0 (a value, not "omitted")
                if (ci + rep_i) % 2 == 0:
                    xdeg = (33.0, 0.0, 0, 180.0)[((ci + rep_i) // 2) % 4]
                    with warnings.catch_warnings():
                        warnings.simplefilter("ignore")
                        r2 = h.read_single(arg, degrees_from_north=xdeg)
                    if r2.degrees_from_north != float(xdeg) or not np.array_equal(r2.vt.amplitude, vec[2]) or not np.array_equal(r2.ns.amplitude, r.ns.amplitude):
                        run.violation(f"reader:{c['fmt']}:explicit-degrees", f"{key}: explicit degrees_from_north={xdeg!r} gives {r2.degrees_from_north} "
                                      f"(the file's own orientation is {r.degrees_from_north})", rep)
                run.case((c["fmt"], tuple(c["perm"]), c["nv"], eol) if c["defect"] == "none" and c["perm"] != [1, 2, 3] else None,
                         sample=dict(format=c["fmt"], order=c["perm"], names=c["names"], n=len(vec[0]), dt=dt) if len(run.samples) < 3 and c["perm"] == [3, 1, 2] else None)
                _cleanup(arg)
    read_args(run, h, wd, rng)
    gcf(run, h)
    return run.finish(
        rule="every case of spec/Readers.tla (7 formats x 6 orders x naming variants x defects) written to real files (text formats "
             "with \\n and \\r\\n) and read back through read_single / read; all 9 argument forms of spec/ReadArgs.tla; the shipped GCF "
             "file against obspy; non-trivial = defect-free case in a non-canonical order",
        exhaustive=True)


def _cleanup(arg):
    for a in (arg if isinstance(arg, list) else [arg]):
        try:
            os.remove(a)
        except OSError:
            pass


def read_args(run, h, wd, rng):
    from obspy import Trace, Stream, UTCDateTime
    res = tlc("ReadArgs", "ReadArgs", timeout=300, workers=2)
    run.add_tlc(res, "ReadArgs: EachGetsItsOwn (implementation tier as repaired)")
    if not res.ok and res.violated != "EachGetsItsOwn":
        require_tlc_ok(res, "ReadArgs")
    forms = [c for c in res.cases if isinstance(c, dict) and "kf" in c]
    if not forms:
        forms = [dict(kf=a, df=b, n=3) for a in ("none", "one", "each") for b in ("none", "one", "each")]
    files, vecs = [], []
    for i in range(3):
        v = vectors(rng, 50 + i, False)
        trs = [Trace(d.astype(np.float32), header=dict(sampling_rate=100.0, channel=l, station=f"S{i}", network="XX", starttime=UTCDateTime(2021, 3, 4)))
               for l, d in zip(("BHN", "BHE", "BHZ"), v)]
        fn = os.path.join(wd, f"args_{i}.mseed")
        Stream(trs).write(fn, format="MSEED")
        files.append(fn); vecs.append(v)
    degs = [10.0, 0.0, 355.0]
    for f in forms:
        kw = None if f["kf"] == "none" else ({"format": "MSEED"} if f["kf"] == "one" else [{"format": "MSEED"}, {"format": "MSEED"}, {"format": "MSEED"}])
        dg = None if f["df"] == "none" else (45.0 if f["df"] == "one" else list(degs))
        key = f"read(fnames x3, obspy_read_kwargs={f['kf']}, degrees_from_north={f['df']})"
        try:
            with warnings.catch_warnings():
                warnings.simplefilter("ignore")
                recs = h.read([[x] for x in files], obspy_read_kwargs=kw, degrees_from_north=dg)
        except Exception as e:
            run.violation(f"read-args:kwargs={f['kf']}:degrees={f['df']}", f"{key} raised {type(e).__name__}: {e}", dict(kind="read-args", forms=f))
            continue
        exp = [0.0] * 3 if dg is None else ([45.0] * 3 if f["df"] == "one" else degs)
        got = [r.degrees_from_north for r in recs]
        if len(recs) != 3 or got != exp or not all(np.array_equal(r.ns.amplitude, v[0]) for r, v in zip(recs, vecs)):
            run.violation(f"read-args:kwargs={f['kf']}:degrees={f['df']}", f"{key}: degrees {got}, expected {exp} (recordings in order)", dict(kind="read-args", forms=f))
        run.case(("args", f["kf"], f["df"]))
    # reader options other than the format reach every file of a recording: a time window (starttime / endtime) on recordings
    # given as ONE combined miniSEED file and as THREE per-component files, options given once and per recording
    t0 = UTCDateTime(2021, 3, 4)
    win = {"format": "MSEED", "starttime": t0 + 0.095, "endtime": t0 + 0.305}      # samples 10 .. 30 at 100 Hz
    three = []
    for i in range(3):
        names_i = []
        for l, d in zip(("BHN", "BHE", "BHZ"), vecs[i]):
            fn = os.path.join(wd, f"args3_{i}_{l}.mseed")
            Stream([Trace(d.astype(np.float32), header=dict(sampling_rate=100.0, channel=l, station=f"S{i}", network="XX", starttime=t0))]).write(fn, format="MSEED")
            names_i.append(fn)
        three.append(names_i)
    import obspy
    # what obspy itself returns for these options (its own rounding of the window ends), per recording and component
    want = [[obspy.read(three[i][c], **win)[0].data.astype(np.float64) for c in range(3)] for i in range(3)]
    if not all(5 < len(want[i][0]) < 40 for i in range(3)):
        raise Exception("instance construction: the time window does not cut the traces")
    for layout, fnames in (("one file per recording", [[x] for x in files]), ("three files per recording", three)):
        for form in ("one", "each"):
            kw = dict(win) if form == "one" else [dict(win) for _ in range(3)]
            key = f"read({layout}, obspy_read_kwargs with starttime/endtime given {form})"
            try:
                with warnings.catch_warnings():
                    warnings.simplefilter("ignore")
                    recs = h.read(fnames, obspy_read_kwargs=kw)
                    single = h.read_single(fnames[1] if len(fnames[1]) > 1 else fnames[1][0], obspy_read_kwargs=dict(win))
            except Exception as e:
                run.violation(f"read-args:window:{layout.split()[0]}", f"{key} raised {type(e).__name__}: {e}", dict(kind="read-args-window", layout=layout, form=form))
                continue
            for k, r in enumerate(list(recs) + [single]):
                v = want[k] if k < 3 else want[1]
                if not (np.array_equal(r.ns.amplitude, v[0]) and np.array_equal(r.ew.amplitude, v[1]) and np.array_equal(r.vt.amplitude, v[2])):
                    run.violation(f"read-args:window:{layout.split()[0]}", f"{key}: recording {k if k < 3 else 'read_single'} holds {r.ns.n_samples} samples "
                                  f"(first {r.ns.amplitude[:2].tolist()}), obspy returns {len(v[0])} samples for the requested window ({v[0][:2].tolist()} ...)",
                                  dict(kind="read-args-window", layout=layout, form=form))
                    break
            run.case(("args-window", layout, form))


def gcf(run, h):
    import obspy
    fn = os.path.join(REPO, "test/data/input/gcf/sample.gcf")
    if not os.path.exists(fn) or os.path.getsize(fn) == 0:
        run.notes["gcf"] = "sample.gcf not available"
        return
    with warnings.catch_warnings():
        warnings.simplefilter("ignore")
        r = h.read_single(fn)
        st = obspy.read(fn, format="GCF")
    by = {tr.stats.channel[-1]: tr for tr in st}
    for comp, ch in (("ns", "N"), ("ew", "E"), ("vt", "Z")):
        if not np.array_equal(getattr(r, comp).amplitude, by[ch].data.astype(float)) or abs(getattr(r, comp).dt_in_seconds - by[ch].stats.delta) > 1e-12:
            run.violation("reader:gcf", f"sample.gcf: component {comp} differs from channel ..{ch} of a direct obspy read", dict(kind="gcf"))
    run.case(("gcf",))


if __name__ == "__main__":
    sys.path.insert(0, __file__.rsplit("/", 1)[0])
    main_wrapper(main)
