"""C08 - reported peaks are the highest local maximum inside the search range.

spec/Peaks.tla (+ PeakRules.tla): TLC enumerates every curve of length N over
a level alphabet and every search range on the half-step lattice, checks the
algebraic content of the property and that the implementation-shaped search
refines the property-level relation, and exports every case with its set of
allowed answers.  Each exported case is replayed into the real HvsrCurve,
HvsrTraditional (all curves at once, range *sequences* so stale peaks show),
HvsrAzimuthal, HvsrDiffuseField and the mean-curve peak.  Verdict = membership
in the property-level set P_Allowed; disagreement with the implementation-
shaped answer only is MODEL-DRIFT (informational).
"""
import math
import random
import sys
import warnings

import numpy as np

from vcommon import Run, tlc, require_tlc_ok, import_hvsrpy, main_wrapper

NOEND = -99


def hz(h, scale):
    return None if h == NOEND else (h / 2.0) * scale


def idx_of(freq, f):
    """1-based grid index of a reported frequency (0 = none)."""
    if f is None or (isinstance(f, float) and math.isnan(f)):
        return 0
    j = int(np.argmin(np.abs(freq - f)))
    if freq[j] != f:
        return -1          # not a grid frequency at all
    return j + 1


def main():
    run = Run("C08")
    hvsrpy = import_hvsrpy()
    from hvsrpy import HvsrCurve, HvsrTraditional, HvsrAzimuthal, HvsrDiffuseField
    rng = random.Random(run.seed)

    cfgs = ["Peaks_quick"] if run.quick else ["Peaks_quick", "Peaks_thorough"]
    for cfg in cfgs:
        res = tlc("Peaks", cfg, timeout=3000, heap="12g")
        require_tlc_ok(res, cfg)
        run.add_tlc(res, cfg)
        cases = res.cases
        if not cases:
            raise Exception("no cases exported")
        n = len(cases[0]["c"])
        by_range = {}
        for k in cases:
            by_range.setdefault((k["lo"], k["hi"]), []).append(k)
        for v in by_range.values():
            v.sort(key=lambda k: k["c"])
        # full replay of HvsrCurve on the quick scope; stratified on the large one
        stride = 1 if cfg == "Peaks_quick" else 23
        for scale, ascale in ((1.0, 1.0), (0.25, 3.0)):
            freq = np.arange(1, n + 1, dtype=float) * scale
            replay_scope(run, hvsrpy, by_range, freq, scale, ascale, rng, stride, cfg)
    # ---- the objects AROUND the one whose range is changed (spec/TraceResultHeap.tla): a range update re-evaluates the peaks of its
    #      target and of nothing else; objects assembled from others sit on storage of their own
    import resultheap
    resultheap.run_sessions(run, hvsrpy, "C08-result-heap", dict(new_trad=1, new_diffuse=1, assemble=3, update_range=8, reject=1, read_only=3, read=1),
                            dict(statistics=2, mean_curve_peak_bounded=3, single_panel=1, summary=1, write=1), 12 if run.quick else 120, 16, "result-heap")
    mean_peak_after_rejection_range(run)
    return run.finish(
        rule="every (curve in Levels^N, lo, hi on the half-step lattice incl. None/inverted/out-of-grid) "
             "state of spec/Peaks.tla replayed on HvsrCurve / HvsrTraditional (two range orders) / "
             "HvsrAzimuthal / HvsrDiffuseField / mean-curve peak; non-trivial = a peak exists and the "
             "range changes the answer w.r.t. the unbounded search",
        exhaustive=True)


def judge(run, what, case, got_idx, got_amp, amp_row, scale, ascale):
    al = case["al"]
    key = f"{what}|c={case['c']}|lo={case['lo']}|hi={case['hi']}"
    if got_idx not in al:
        run.violation(f"peak:{what}", f"curve={case['c']} range(lo,hi half-steps)=({case['lo']},{case['hi']}) "
                      f"scale={scale}: reported grid index {got_idx} not in allowed {al}",
                      dict(kind="peak", what=what, case=case, scale=scale, ascale=ascale))
        return
    if got_idx > 0:
        if not (got_amp == amp_row[got_idx - 1]):
            run.violation(f"peakamp:{what}", f"curve={case['c']} range=({case['lo']},{case['hi']}): amplitude "
                          f"{got_amp} is not the curve value {amp_row[got_idx-1]} at the reported frequency",
                          dict(kind="peak", what=what, case=case, scale=scale, ascale=ascale))
    elif got_amp is not None and not (isinstance(got_amp, float) and math.isnan(got_amp)):
        run.violation(f"peakamp:{what}", f"curve={case['c']}: no peak but amplitude {got_amp}",
                      dict(kind="peak", what=what, case=case, scale=scale, ascale=ascale))
    if got_idx != case["ip"]:
        run.drift += 1


def replay_scope(run, hvsrpy, by_range, freq, scale, ascale, rng, stride, cfg):
    from hvsrpy import HvsrCurve, HvsrTraditional, HvsrAzimuthal, HvsrDiffuseField
    ranges = sorted(by_range)
    curves = [k["c"] for k in by_range[ranges[0]]]
    unb = {tuple(k["c"]): k["ip"] for k in by_range[(NOEND, NOEND)]}
    amp = np.array(curves, dtype=float) * ascale
    nw = len(curves)

    # ---- single curves, diffuse field, single-window mean curve ----------
    sel = list(range(0, nw, stride))
    # a second grid with the SAME length and the SAME first and last frequency but geometric spacing: the same range in Hz is
    # evaluated on it right after the linear grid (nothing may be carried over from one grid to another); its lattice position
    # is found by snapping the Hz values on that grid (skipped at an exact tie)
    n_ = len(freq)
    freq_b = np.geomspace(freq[0], freq[-1], n_) if scale == 1.0 else None

    def lattice_on_b(v):
        if v is None:
            return NOEND
        d = np.abs(freq_b - v)
        i = int(np.argmin(d))
        return None if np.sum(d == d[i]) > 1 else 2 * (i + 1)
    for (lo, hi) in ranges:
        r = (hz(lo, scale), hz(hi, scale))
        cs = by_range[(lo, hi)]
        kb = None
        if freq_b is not None and (lo == NOEND or 2 <= lo <= 2 * n_) and (hi == NOEND or 2 <= hi <= 2 * n_):
            lb, hb = lattice_on_b(r[0]), lattice_on_b(r[1])
            kb = by_range.get((lb, hb)) if lb is not None and hb is not None else None
        for j in sel:
            k = cs[j]
            c = HvsrCurve(freq, amp[j])
            c.update_peaks_bounded(search_range_in_hz=r)
            gi = idx_of(freq, c.peak_frequency)
            judge(run, "HvsrCurve", k, gi, c.peak_amplitude, amp[j], scale, ascale)
            if kb is not None and j % 3 == 0:
                cb = HvsrCurve(freq_b, amp[j])
                cb.update_peaks_bounded(search_range_in_hz=r)
                judge(run, "HvsrCurve[geometric grid, same ends]", kb[j], idx_of(freq_b, cb.peak_frequency), cb.peak_amplitude, amp[j], scale, ascale)
            nt = None
            if k["al"] != [0] and k["ip"] != unb[tuple(k["c"])]:
                nt = (tuple(k["c"]), lo, hi)
            run.case(nt, sample=dict(curve=k["c"], lo_halfsteps=lo, hi_halfsteps=hi, allowed=k["al"],
                                     reported=gi) if nt and rng.random() < 0.001 else None)
        # diffuse field + mean curve of a one-window traditional object on a sub-sample
        for j in sel[::7]:
            k = cs[j]
            d = HvsrDiffuseField(freq, amp[j])
            try:
                f, a = d.mean_curve_peak(search_range_in_hz=r)
            except ValueError:
                f, a = None, None
            judge(run, "HvsrDiffuseField.mean_curve_peak", k, idx_of(freq, f), a, amp[j], scale, ascale)
            d.update_peaks_bounded(search_range_in_hz=r)
            judge(run, "HvsrDiffuseField.update_peaks_bounded", k, idx_of(freq, d.peak_frequency),
                  d.peak_amplitude, amp[j], scale, ascale)
            # ... and a later mean_curve_peak() with DEFAULT arguments searches the whole curve again
            try:
                f, a = d.mean_curve_peak()
            except ValueError:
                f, a = None, None
            judge(run, "HvsrDiffuseField.mean_curve_peak[default range after a bounded update]", by_range[(NOEND, NOEND)][j], idx_of(freq, f), a, amp[j], scale, ascale)
            t = HvsrTraditional(freq, amp[j:j + 1])
            t.update_peaks_bounded(search_range_in_hz=r)
            for dist in ("normal", "lognormal") if min(k["c"]) > 0 else ("normal",):
                try:
                    f, a = t.mean_curve_peak(dist)
                except ValueError:
                    f, a = None, None
                judge(run, f"HvsrTraditional.mean_curve_peak[{dist}]", k, idx_of(freq, f), a, amp[j], scale, ascale)
            run.case()

    # ---- all curves as windows of one object; range sequences -------------
    orders = [sorted(ranges), sorted(ranges, key=lambda t: (t[1], t[0]))]
    shuffled = list(ranges)
    rng.shuffle(shuffled)
    orders.append(shuffled)
    half = nw // 2
    by_prev = {}
    for oi, order in enumerate(orders):
        trad = HvsrTraditional(freq, amp)
        # (the per-azimuth objects the azimuthal result was assembled from stay in use: they keep answering THEIR range - the whole
        #  curve - whatever range the azimuthal result is moved to, and a range given to one of them does not move the azimuthal result)
        src0, src1 = HvsrTraditional(freq, amp[:half]), HvsrTraditional(freq, amp[half:])
        azi = HvsrAzimuthal([src0, src1], [0., 90.])
        whole = [k_ for k_ in by_range if k_ == (NOEND, NOEND)]
        # start from the constructor state (None, None), then repeat every range once more (no-op path)
        seq = []
        for r_ in order:
            seq.append(r_)
            if rng.random() < 0.15:
                seq.append(r_)
        for (lo, hi) in seq:
            r = (hz(lo, scale), hz(hi, scale))
            cs = by_range[(lo, hi)]
            # orders 0/1 pass an explicit empty find_peaks_kwargs: only then can the
            # "same arguments -> keep the cached peaks" shortcut of the containers fire
            kw = dict(find_peaks_kwargs={}) if oi in (0, 1) else {}
            if oi == 2 and rng.random() < 0.3:
                # a call with its own scipy filters (a prominence nothing reaches) BEFORE the plain call: find_peaks_kwargs=None means
                # "scipy's defaults", not "whatever the previous call used"
                trad.update_peaks_bounded(search_range_in_hz=r, find_peaks_kwargs=dict(prominence=1e9))
                azi.update_peaks_bounded(search_range_in_hz=r, find_peaks_kwargs=dict(prominence=1e9))
            trad.update_peaks_bounded(search_range_in_hz=r, **kw)
            azi.update_peaks_bounded(search_range_in_hz=r, **kw)
            check_container(run, f"HvsrTraditional[order{oi}]", trad, cs, freq, amp, scale, ascale, 0)
            check_container(run, f"HvsrAzimuthal[0][order{oi}]", azi.hvsrs[0], cs[:half], freq, amp[:half], scale, ascale, 0)
            check_container(run, f"HvsrAzimuthal[1][order{oi}]", azi.hvsrs[1], cs[half:], freq, amp[half:], scale, ascale, 0)
            if whole:
                check_container(run, f"source-of-azimuthal[0][order{oi}]", src0, by_range[whole[0]][:half], freq, amp[:half], scale, ascale, 0)
                if rng.random() < 0.2:
                    # ... and the other way round: the second source is given the current range; the azimuthal result (moved on below) keeps its own
                    src1.update_peaks_bounded(search_range_in_hz=r)
                    check_container(run, f"source-of-azimuthal[1][order{oi}]", src1, cs[half:], freq, amp[half:], scale, ascale, 0)
                    check_container(run, f"HvsrAzimuthal[1][order{oi}]", azi.hvsrs[1], cs[half:], freq, amp[half:], scale, ascale, 0)
            # "changing the range always re-evaluates every peak" - also when the range is changed by the window-rejection
            # algorithm (which updates the inner objects itself) and for the peak of the azimuthal MEAN curve: it must be the one
            # of an object built from the same curves, masks and range in the ordinary way
            if oi == 2 and rng.random() < 0.25 and lo is not None and hi is not None:
                import copy as _copy
                from hvsrpy import frequency_domain_window_rejection
                a2 = _copy.deepcopy(azi)
                prev = by_prev.get("r")
                try:
                    with warnings.catch_warnings():
                        warnings.simplefilter("ignore")
                        if prev is not None:
                            a2.update_peaks_bounded(search_range_in_hz=prev)
                        frequency_domain_window_rejection(a2, n=2.5, max_iterations=3, search_range_in_hz=r,
                                                          distribution_fn="normal", distribution_mc="normal")
                        got_mc = a2.mean_curve_peak("normal")
                except Exception:
                    got_mc = None
                run.notes["fdwra_range_mean_curve_peaks"] = run.notes.get("fdwra_range_mean_curve_peaks", 0) + (1 if got_mc is not None else 0)
                if got_mc is not None:
                    fresh = HvsrAzimuthal([HvsrTraditional(freq, amp[:half]), HvsrTraditional(freq, amp[half:])], [0., 90.])
                    fresh.update_peaks_bounded(search_range_in_hz=r)
                    for x, y in zip(fresh.hvsrs, a2.hvsrs):
                        x.valid_window_boolean_mask = np.array(y.valid_window_boolean_mask)
                        x.valid_peak_boolean_mask = np.array(y.valid_peak_boolean_mask)
                    try:
                        want_mc = fresh.mean_curve_peak("normal")
                    except Exception:
                        want_mc = None
                    if want_mc is not None and (float(got_mc[0]) != float(want_mc[0])):
                        run.violation("mean-curve-peak-after-fdwra-range", f"azimuthal object, range {prev} then frequency_domain_window_rejection(search_range={r}): "
                                      f"mean-curve peak at {float(got_mc[0])} Hz, an object with the same curves, masks and range reports {float(want_mc[0])} Hz",
                                      dict(kind="mc-peak", lo=lo, hi=hi))
            by_prev["r"] = r
            if tuple(azi.meta.get("search_range_in_hz")) != r or tuple(trad.meta.get("search_range_in_hz")) != r:
                run.violation("meta-range", f"meta search range {azi.meta.get('search_range_in_hz')} / "
                              f"{trad.meta.get('search_range_in_hz')} differs from requested {r}",
                              dict(kind="meta", lo=lo, hi=hi))
            run.case()


def mean_peak_after_rejection_range(run):
    """The peak of the azimuthal (and traditional) MEAN curve is re-evaluated when the search range is changed by
    frequency_domain_window_rejection: two-bump curves (a bump at 2 Hz, a higher one at 8 Hz), first the full range,
    then the rejection with a range that excludes the higher bump (and the other way round)."""
    from hvsrpy import HvsrTraditional, HvsrAzimuthal, frequency_domain_window_rejection
    f = np.linspace(0.5, 10.0, 20)
    def rows(k):
        out = []
        for w in range(4):
            a = np.ones(20)
            a[3 + (w + k) % 2] = 3.0 + 0.1 * w          # ~2 Hz
            a[15 + (w % 2)] = 5.0 + 0.1 * w              # ~8 Hz
            out.append(a)
        return np.array(out)
    for kind in ("azimuthal", "traditional"):
        for first, second in (((None, None), (1.0, 5.0)), ((1.0, 5.0), (6.0, 9.9)), ((6.0, 9.9), (None, 5.0)), ((None, 5.0), (None, None))):
            mk = lambda: (HvsrAzimuthal([HvsrTraditional(f, rows(0)), HvsrTraditional(f, rows(1))], [0., 90.]) if kind == "azimuthal"
                          else HvsrTraditional(f, rows(0)))
            obj, fresh = mk(), mk()
            with warnings.catch_warnings():
                warnings.simplefilter("ignore")
                obj.update_peaks_bounded(search_range_in_hz=first)
                frequency_domain_window_rejection(obj, n=3, max_iterations=2, search_range_in_hz=second, distribution_fn="normal", distribution_mc="normal")
                fresh.update_peaks_bounded(search_range_in_hz=second)
                ia, ib = ([obj], [fresh]) if kind == "traditional" else (obj.hvsrs, fresh.hvsrs)
                for x, y in zip(ia, ib):
                    y.valid_window_boolean_mask = np.array(x.valid_window_boolean_mask)
                    y.valid_peak_boolean_mask = np.array(x.valid_peak_boolean_mask)
                got, want = obj.mean_curve_peak("normal"), fresh.mean_curve_peak("normal")
            lo_, hi_ = (second[0] or 0.0), (second[1] or 99.0)
            if float(got[0]) != float(want[0]) or not (lo_ < float(got[0]) < hi_):
                run.violation(f"mean-curve-peak-after-fdwra-range:{kind}", f"{kind}: range {first}, then frequency_domain_window_rejection(search_range={second}): mean-curve peak "
                              f"reported at {float(got[0])} Hz; an object with the same curves, masks and range reports {float(want[0])} Hz", dict(kind="mc-peak", obj=kind))
            run.case(("mc-after-fdwra", kind, str(first), str(second)))


def check_container(run, what, obj, cs, freq, amp, scale, ascale, _):
    frq = obj._main_peak_frq
    pamp = obj._main_peak_amp
    any_peak = False
    for j, k in enumerate(cs):
        gi = idx_of(freq, float(frq[j]))
        judge(run, what, k, gi, float(pamp[j]), amp[j], scale, ascale)
        if gi > 0:
            any_peak = True
        # a window without a peak never enters the resonance statistics
        if gi == 0 and bool(obj.valid_peak_boolean_mask[j]):
            run.violation(f"nopeak-in-stats:{what}", f"curve={k['c']} range=({k['lo']},{k['hi']}): no peak but "
                          "valid_peak_boolean_mask is True", dict(kind="mask", case=k))
        if gi > 0 and not bool(obj.valid_peak_boolean_mask[j]):
            run.violation(f"peak-dropped:{what}", f"curve={k['c']} range=({k['lo']},{k['hi']}): has a peak but "
                          "valid_peak_boolean_mask is False right after the peak search", dict(kind="mask", case=k))
    pf = obj.peak_frequencies
    if np.isnan(pf).any():
        run.violation(f"nan-in-peak_frequencies:{what}", "peak_frequencies contains NaN after a range update",
                      dict(kind="mask"))
    # ... also when the masks are afterwards overwritten without looking at the peaks (what the time-domain rejections
    # do with hvsr=...): the resonance statistics are taken over exactly the windows that HAVE a peak
    if not any_peak or all(idx_of(freq, float(f_)) > 0 for f_ in frq):
        return
    import copy as _copy
    o2 = _copy.deepcopy(obj)
    o2.valid_window_boolean_mask = np.full(len(cs), True)
    o2.valid_peak_boolean_mask = np.full(len(cs), True)
    want = sorted(float(f_) for f_ in frq if not np.isnan(f_))
    try:
        got = sorted(float(x) for x in o2.peak_frequencies)
        mf = float(o2.mean_fn_frequency("normal"))
    except Exception as e:
        got, mf = f"{type(e).__name__}: {e}", float("nan")
    if got != want or not np.isclose(mf, np.mean(want), rtol=1e-12):
        run.violation(f"nopeak-in-stats-after-mask-overwrite:{what}", f"range=({cs[0]['lo']},{cs[0]['hi']}): windows without a peak and both masks set True: "
                      f"peak_frequencies = {got}, mean fn = {mf}; the windows that have a peak are {want}", dict(kind="mask"))


if __name__ == "__main__":
    sys.path.insert(0, __file__.rsplit("/", 1)[0])
    main_wrapper(main)
