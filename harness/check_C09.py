"""C09 - processing has no side effects on its inputs and is repeatable.

spec/Session.tla (design level): recordings with content versions, one settings
object whose stored FFT length is state, results keyed by (recordings, versions,
FFT length used).  TLC proves Repeatable / InputsUntouched / ResultsImmutable /
NeverTruncates for the property-level design and produces the counterexample
history for today's FFT-length ratchet (negative configuration).
spec/TraceSessionHeap.tla (code -> spec): seeded random sessions over every
processing method (9 frequency-domain names and aliases, single azimuth, RotDpp,
azimuthal, diffuse field, PSD) x tapers x fft settings are run on the real API;
the heap (storage identity + content digests of every recording, settings
object and result) is logged before and after each call and every step is
validated by TLC: recordings are bystanders of process(), the settings object
may change in its fft_settings only, results sit on fresh storage and never
change afterwards, an exact repeat at the same effective FFT length is
bit-identical.  A repeat that differs only because the stored FFT length was
raised in between is the documented FftLengthRatchet finding.
"""
import copy
import sys
import warnings

import numpy as np

from vcommon import Run, tlc, require_tlc_ok, import_hvsrpy, main_wrapper, MachineryError
import heaplog
from heaplog import World, rec_slots
from check_C15 import set_slots

METHODS = ["arithmetic_mean", "squared_average", "quadratic_mean", "root_mean_square", "effective_amplitude_spectrum",
           "geometric_mean", "total_horizontal_energy", "vector_summation", "maximum_horizontal_value"]


def mutable_values(x, out, seen):
    """every mutable container / array reachable from x (for storage identity)"""
    if id(x) in seen:
        return
    if isinstance(x, np.ndarray):
        seen.add(id(x)); out.append(x)
    elif isinstance(x, (list, dict)):
        seen.add(id(x)); out.append(x)
        for v in (x.values() if isinstance(x, dict) else x):
            mutable_values(v, out, seen)
    elif isinstance(x, tuple):
        for v in x:
            mutable_values(v, out, seen)


NCONTENT = 6


def res_slots(r):
    def fn():
        if isinstance(r, dict):          # PSD
            freq = np.concatenate([r[k].frequency for k in ("ns", "ew", "vt")])
            amp = np.concatenate([r[k].amplitude for k in ("ns", "ew", "vt")])
            content = [freq, amp, 0, 0, 0, 0]
            muts = []
            for k in ("ns", "ew", "vt"):
                muts += [r[k].frequency, r[k].amplitude]
        else:
            inner = r.hvsrs if hasattr(r, "hvsrs") else [r]
            amp = np.concatenate([np.atleast_2d(i.amplitude).ravel() for i in inner])
            if hasattr(inner[0], "valid_window_boolean_mask"):
                masks = [[list(map(bool, i.valid_window_boolean_mask)), list(map(bool, i.valid_peak_boolean_mask))] for i in inner]
                peaks = np.concatenate([np.concatenate([i._main_peak_frq, i._main_peak_amp]) for i in inner])
            else:
                masks = 0
                peaks = np.array([inner[0].peak_frequency, inner[0].peak_amplitude], dtype=float)
            content = [np.asarray(r.frequency), amp, masks, peaks, list(inner[0]._search_range_in_hz), r.meta]
            muts = []
            seen = set()
            for i in inner:
                for a in (i.frequency, i.amplitude):
                    mutable_values(a, muts, seen)
                mutable_values(i.meta, muts, seen)
            mutable_values(r.meta, muts, seen)
        out = [(None, c, True) if not isinstance(c, np.ndarray) else (None, c) for c in content]
        for m in muts:
            out.append((m, 0))
        return out
    return fn


class Session:
    def __init__(self, h, rng):
        self.h, self.rng = h, rng
        self.w = World()
        self.live, self.kind = {}, {}
        self.n = 0
        self.events = []
        self.calls = []          # (result id, rec ids, settings id, input digests, effective n)
        self.failed = None
        self.ratchet_repeats = []

    def nid(self, p):
        self.n += 1
        return f"{p}{self.n}"

    def log(self, op, roles, new, fn, **args):
        pre = self.w.snapshot()
        extra = {}
        try:
            extra = fn() or {}
        except Exception as e:
            self.failed = (op, roles, f"{type(e).__name__}: {e}")
            for i in new:
                self.w.remove(i); self.live.pop(i, None); self.kind.pop(i, None)
            new = []
        post = self.w.snapshot()
        self.events.append(dict(op=op, roles=roles, new=new, pre=pre, post=post, **args, **extra))
        return pre, post

    def make_rec(self, n, dt):
        rng, h = self.rng, self.h
        t = np.arange(n) * dt
        mk = lambda: np.sin(2 * np.pi * rng.uniform(1, 8) * t) + 0.5 * rng.normal(size=n)
        return h.SeismicRecording3C(h.TimeSeries(mk(), dt), h.TimeSeries(mk(), dt), h.TimeSeries(mk(), dt),
                                    degrees_from_north=float(rng.choice([0.0, 20.0])),
                                    # (every recording of a session comes from its own file(s), as when a suite of files is read)
                                    meta={"file name(s)": [f"rec{self.n}_a.mseed", f"rec{self.n}_b.mseed"][:1 + self.n % 2]})

    def make_settings(self, default_fft=False, kind=None, policy=None):
        rng, h = self.rng, self.h
        sm = dict(operator=str(rng.choice(["konno_and_ohmachi", "log_rectangular", "linear_triangular"])), bandwidth=0, center_frequencies_in_hz=np.geomspace(2.0, 15.0, 7))
        sm["bandwidth"] = {"konno_and_ohmachi": 40.0, "log_rectangular": 0.6, "linear_triangular": 2.5}[sm["operator"]]
        wtw = ["tukey", float(rng.choice([0.0, 0.1, 0.5, 1.0]))]
        fft = [None, {"n": None}, {"n": 65536}, {}][rng.randint(4)]
        kind_ = rng.randint(6)
        if default_fft:
            fft, kind_ = None, rng.randint(5)
        kind = kind_ if kind is None else kind
        common = dict(window_type_and_width=wtw, smoothing=sm, fft_settings=fft)
        if policy is not None:
            common["handle_dissimilar_time_steps_by"] = policy
        if kind == 0:
            return h.HvsrTraditionalProcessingSettings(method_to_combine_horizontals=METHODS[rng.randint(len(METHODS))], **common)
        if kind == 1:
            return h.HvsrTraditionalSingleAzimuthProcessingSettings(azimuth_in_degrees=float(rng.choice([0.0, 35.0, 120.0])), **common)
        if kind == 2:
            return h.HvsrTraditionalRotDppProcessingSettings(azimuths_in_degrees=np.arange(0, 180, 60), ppth_percentile_for_rotdpp_computation=float(rng.choice([0, 50, 100])), **common)
        if kind == 3:
            return h.HvsrAzimuthalProcessingSettings(azimuths_in_degrees=[0.0, 45.0, 90.0], **common)
        if kind == 4:
            return h.HvsrDiffuseFieldProcessingSettings(**common)
        return h.PsdProcessingSettings(**common)

    def setup(self, default_fft=False, with_long=False, mixed=None):
        ids = []

        def f():
            # 100 Hz, or 75 Hz whose sampling interval has no short decimal / binary form (the recordings' time step is input state too)
            dt = [0.01, 1.0 / 75.0][self.rng.randint(2)]
            if mixed is not None:
                # recordings with two time steps in one call (the keeping policies then set some of them aside - set aside, not
                # taken out of the caller's list), every kind of settings object with the given policy
                for dt_ in (0.02, 0.01, 0.01, 0.02, 0.01):
                    i = self.nid("r")
                    rec = self.make_rec(int(round(4.0 / dt_)), dt_)
                    self.live[i], self.kind[i] = rec, "rec"
                    self.w.add(i, "rec", rec_slots(rec))
                    ids.append(i)
                for kind in (0, 3, 4, 5):
                    i = self.nid("s")
                    st = self.make_settings(kind=kind, policy=mixed)
                    self.live[i], self.kind[i] = st, "set"
                    self.w.add(i, f"set:{type(st).__name__}", set_slots(st))
                    ids.append(i)
                return
            for k in range(3):
                i = self.nid("r")
                rec = self.make_rec(int(self.rng.choice([240, 400, 400])), dt)
                self.live[i], self.kind[i] = rec, "rec"
                self.w.add(i, "rec", rec_slots(rec))
                ids.append(i)
            if with_long or self.rng.rand() < 0.35:         # a recording that needs a longer FFT than the 32 768-point minimum
                i = self.nid("r")
                rec = self.make_rec(33000, dt)
                self.live[i], self.kind[i] = rec, "rec"
                self.w.add(i, "rec", rec_slots(rec))
                ids.append(i)
            for k in range(2):
                i = self.nid("s")
                s = self.make_settings(default_fft=default_fft)
                self.live[i], self.kind[i] = s, "set"
                self.w.add(i, f"set:{type(s).__name__}", set_slots(s))
                ids.append(i)
        # ids are only known after f ran: log with the final list
        pre = self.w.snapshot()
        f()
        post = self.w.snapshot()
        self.events.append(dict(op="Setup", roles={}, new=ids, pre=pre, post=post))

    def input_digest(self, recs, s, pre):
        k = self.live[s].attrs.index("fft_settings")
        sl = [x for i, x in enumerate(pre[s]["slots"]) if i not in (2 * k, 2 * k + 1)]
        return ([(r, [d for c, d in pre[r]["slots"]]) for r in recs], [d for c, d in sl])

    def process(self, recs=None, s=None):
        rng = self.rng
        sets = [i for i, k in self.kind.items() if k == "set"]
        allrecs = [i for i, k in self.kind.items() if k == "rec"]
        if s is None:
            s = sets[rng.randint(len(sets))]
        if recs is None:
            small = [i for i in allrecs if self.live[i].ns.n_samples < 1000]
            big = [i for i in allrecs if self.live[i].ns.n_samples >= 1000]
            same = [i for i in small if self.live[i].ns.n_samples == self.live[small[0]].ns.n_samples]
            # (PSD / diffuse-field calls get recordings of unequal length as well: the inputs are bystanders whatever their lengths)
            pool = same if (getattr(self.live[s], "processing_method", "") in ("psd", "diffuse_field") and rng.rand() < 0.4) else small
            k = rng.randint(1, len(pool) + 1)
            recs = sorted(rng.choice(pool, k, replace=False).tolist())
            if big and rng.rand() < 0.3:
                recs = big[:1]
        sobj = self.live[s]
        r = self.nid("res")
        kf = sobj.attrs.index("fft_settings")
        holder = {}

        def f():
            with warnings.catch_warnings():
                warnings.simplefilter("ignore")
                given = [self.live[i] for i in recs]
                try:
                    res = self.h.process(given, sobj)
                except ValueError as e:
                    # windows of unequal length handed to the PSD / diffuse-field path: outside what any property promises a result
                    # for - a library may refuse them; refusing has no side effects on the inputs either (rule Refuse)
                    if getattr(sobj, "processing_method", "") in ("psd", "diffuse_field") and len({self.live[i].ns.n_samples for i in recs}) > 1:
                        holder["refused"] = f"{type(e).__name__}: {e}"[:160]
                        holder["list"] = len(given) == len(recs) and all(a is self.live[i] for a, i in zip(given, recs))
                        return
                    raise
            # the list the caller handed over is an input as well: same length, same recordings, same order afterwards
            holder["list"] = len(given) == len(recs) and all(a is self.live[i] for a, i in zip(given, recs))
            self.live[r], self.kind[r] = res, "res"
            self.w.add(r, "res", res_slots(res))
            holder["n"] = (sobj.fft_settings or {}).get("n")
        fft_before = copy.deepcopy(sobj.fft_settings)
        pre_world = self.w.snapshot()
        dig = self.input_digest(recs, s, pre_world)
        # an earlier call with the same recordings (same content) and the same settings object (same content outside fft)
        rep = ""
        for (rid, rrecs, rs, rdig, rn, _fb) in reversed(self.calls):
            if rrecs == recs and rs == s and rdig == dig and rid in self.live:
                rep = rid
                break
        self.log("Process", dict(s=s, r=r), [r], f, recs=recs, fftslots=[2 * kf + 1, 2 * kf + 2], repeats=rep, ncontent=NCONTENT, sameN=True, listIntact=True)
        e = self.events[-1]
        e["listIntact"] = bool(holder.get("list", True))
        if holder.get("refused"):
            e["op"], e["new"], e["refused"] = "Refuse", [], holder["refused"]
            self.refusals = getattr(self, "refusals", 0) + 1
            return
        if self.failed:
            return
        n_eff = holder.get("n")
        if rep:
            rn = [c for c in self.calls if c[0] == rep][0][4]
            e["sameN"] = bool(rn == n_eff)
            same_content = all(e["post"][r]["slots"][i][1] == e["pre"][rep]["slots"][i][1] for i in range(NCONTENT))
            if not e["sameN"] and not same_content:
                idx = [k_ for k_, c in enumerate(self.calls) if c[0] == rep][0]
                self.ratchet_repeats.append(dict(settings=type(sobj).__name__, recs=recs, n_first=rn, n_repeat=n_eff,
                                                 first_fft_settings=[c for c in self.calls if c[0] == rep][0][5],
                                                 same_object_used_in_between=any(c[2] == s for c in self.calls[idx + 1:])))
        self.calls.append((r, recs, s, dig, n_eff, fft_before))

    def modify(self):
        rng = self.rng
        cands = [i for i, k in self.kind.items() if k in ("rec", "set")]
        o = cands[rng.randint(len(cands))]
        obj = self.live[o]

        def f():
            if self.kind[o] == "rec":
                c = rng.randint(4)
                if c == 0:
                    obj.ns.amplitude[int(rng.randint(obj.ns.n_samples))] += 1.0
                elif c == 1:
                    obj.orient_sensor_to(float(rng.choice([10.0, 90.0])))
                elif c == 2:
                    obj.meta["file name(s)"].append("x")
                else:
                    obj.detrend("constant")
            else:
                c = rng.randint(3)
                if c == 0:
                    obj.window_type_and_width[1] = float(rng.choice([0.2, 0.3]))
                elif c == 1:
                    obj.smoothing["center_frequencies_in_hz"][0] *= 1.01
                else:
                    obj.smoothing["bandwidth"] = obj.smoothing["bandwidth"] * 1.05
        self.log("Modify", dict(o=o), [], f)


def main():
    run = Run("C09")
    h = import_hvsrpy()
    # ---- design level -------------------------------------------------------------------------
    pos, neg = ("Session_Pq", "Session_Iq") if run.quick else ("Session_P", "Session_I")
    res = tlc("Session", pos, timeout=3000, coverage=True)
    require_tlc_ok(res, pos)
    from vcommon import require_coverage
    run.notes["action_coverage"] = require_coverage(res, ["Process", "Modify"], pos)
    run.add_tlc(res, f"{pos}: Repeatable NeverTruncates InputsUntouched ResultsImmutable (property-level design)")
    nres = tlc("Session", neg, timeout=600)
    run.notes["negative_config_ratchet_breaks_Repeatable"] = (nres.violated == "Repeatable")
    if nres.violated != "Repeatable":
        raise MachineryError("the ratchet configuration did not produce the expected counterexample")
    # ---- sessions ------------------------------------------------------------------------------
    rng = np.random.RandomState(run.seed + 9)
    ntr, nsteps = (36, 7) if run.quick else (600, 10)
    traces, sessions = [], []
    # (run FIRST, while nothing has happened in this process yet: state kept at module level would otherwise already be saturated)
    # scripted sessions: two settings objects left at their DEFAULT fft settings; one of them is later used on a recording that needs
    # a longer FFT - the other one (never used on it) must neither change nor give a different result when its call is repeated
    for variant in range(2 if run.quick else 6):
        s = Session(h, rng)
        s.setup(default_fft=True, with_long=True)
        sets = [i for i, k in s.kind.items() if k == "set"]
        small = [i for i, k in s.kind.items() if k == "rec" and s.live[i].ns.n_samples < 1000]
        big = [i for i, k in s.kind.items() if k == "rec" and s.live[i].ns.n_samples >= 1000]
        a_, b_ = sets[0], sets[1]
        s.process(recs=small[:2], s=a_)
        s.process(recs=small[:2], s=b_)
        s.process(recs=big[:1], s=a_)
        s.process(recs=small[:2], s=b_)          # exact repeat for b_: nothing that happened in between involved it
        if s.failed:
            op, roles, msg = s.failed
            run.violation(f"session:{op}:raised", f"scripted session {variant}: {op} roles={roles} raised {msg}", dict(kind="session-raise"))
        traces.append(dict(ev=s.events))
        sessions.append(s)
    for policy in ("keeping_majority_time_step", "keeping_smallest_time_step", "frequency_domain_resampling")[:3 if not run.quick else 2]:
        s = Session(h, rng)
        s.setup(mixed=policy)
        sets = [i for i, k in s.kind.items() if k == "set"]
        recs_ = [i for i, k in s.kind.items() if k == "rec"]
        for sid in sets:
            if policy == "frequency_domain_resampling" and type(s.live[sid]).__name__ in ("PsdProcessingSettings", "HvsrDiffuseFieldProcessingSettings"):
                continue
            s.process(recs=recs_, s=sid)
            s.process(recs=recs_, s=sid)
            if s.failed:
                break
        if s.failed:
            op, roles, msg = s.failed
            run.violation(f"session:{op}:raised", f"mixed-time-step session ({policy}): {op} roles={roles} raised {msg}", dict(kind="session-raise"))
        for e in s.events:
            if e["op"] == "Process" and not e.get("listIntact", True):
                run.violation("caller-list-changed", f"process() with {policy} changed the list of recordings the caller handed over", dict(kind="list", policy=policy))
        traces.append(dict(ev=s.events))
        sessions.append(s)
    for ti in range(ntr):
        s = Session(h, rng)
        s.setup()
        for k in range(nsteps):
            c = rng.rand()
            if c < 0.45:
                s.process()
            elif c < 0.75 and s.calls:
                rid, recs, sid, _, _, _ = s.calls[rng.randint(len(s.calls))]
                s.process(recs=recs, s=sid)            # repeat an earlier call
            else:
                s.modify()
            if s.failed:
                break
        if s.failed:
            op, roles, msg = s.failed
            run.violation(f"session:{op}:raised", f"session {ti+1}: {op} roles={roles} raised {msg}", dict(kind="session-raise"))
        traces.append(dict(ev=s.events))
        sessions.append(s)
    acc, res = heaplog.validate("TraceSessionHeap", traces, "trace-C09", timeout=3000)
    run.add_tlc(res, "TraceSessionHeap: every recorded step (InputsUntouched, FftLengthRatchet only, FreshResult, Repeatable, ResultsImmutable)")
    run.traces += len(traces)
    ops = {}
    for i, (tr, s) in enumerate(zip(traces, sessions), start=1):
        for e in tr["ev"]:
            ops[e["op"]] = ops.get(e["op"], 0) + 1
        run.case(("session", i) if any(e["op"] == "Process" and e.get("repeats") for e in tr["ev"]) else None, replayed=False)
        for rr in s.ratchet_repeats:
            key = "repeat-differs:n-None" if rr["first_fft_settings"] == {"n": None} else "repeat-differs:fft-length-ratchet"
            if key == "repeat-differs:fft-length-ratchet" and not rr["same_object_used_in_between"]:
                # the known ratchet needs a call WITH THIS settings object in between; a stored length that changes without the
                # object having been used is something else
                key = "repeat-differs:fft-length-changed-although-settings-object-not-used"
            run.violation(key, f"session {i}: repeating process() on recordings {rr['recs']} with the same {rr['settings']} object gives a "
                          f"different result because the stored FFT length changed from {rr['n_first']} to {rr['n_repeat']} between the calls",
                          dict(kind="ratchet", detail=rr))
        if i not in acc:
            nd = run.notes.get("diagnosed", 0)
            run.notes["diagnosed"] = nd + 1
            k = heaplog.diagnose("TraceSessionHeap", tr, "trace-C09") if nd < 10 else 0
            e = tr["ev"][min(k, len(tr["ev"])) - 1] if k else dict(op="undiagnosed", roles={})
            why = classify(e) if k else "undiagnosed"
            run.violation(f"session:{e['op']}:{why}",
                          f"session {i}: step {k} {e['op']} roles={e['roles']} recs={e.get('recs')} settings="
                          f"{e.get('post', {}).get(e['roles'].get('s', ''), {}).get('kind')} repeats={e.get('repeats')} violates: {why}",
                          dict(kind="session-trace", trace=tr, step=k))
    run.notes["session_ops"] = ops
    if traces:
        e = [e for e in traces[0]["ev"] if e["op"] == "Process"][0]
        run.samples.append(dict(process_step=dict(roles=e["roles"], recs=e["recs"], repeats=e["repeats"], settings_kind=e["post"][e["roles"]["s"]]["kind"])))
    bad = copy.deepcopy(traces[0])
    e = [e for e in bad["ev"] if e["op"] == "Process"][0]
    e["post"][e["recs"][0]]["slots"][0][1] += 77777          # "process changed a recording"
    acc2, _ = heaplog.validate("TraceSessionHeap", [bad], "trace-C09-neg", timeout=600)
    run.notes["corrupted_trace_rejected"] = (1 not in acc2)
    if 1 in acc2:
        raise MachineryError("a corrupted trace was accepted by TraceSessionHeap")
    return run.finish(
        rule="seeded random sessions (3-4 recordings incl. one needing a 65 536-point FFT, 2 settings objects over all processing "
             "methods / tapers / fft settings; process, exact repeats, interleaved calls, in-place modification of recordings and "
             "settings), every step validated by TLC; non-trivial = session containing an exact repeat",
        exhaustive=False)


def classify(e):
    """Name the clause of the Process/Modify rule that fails (python mirror of the rule, for the message only)."""
    pre, post = e["pre"], e["post"]
    if e["op"] == "Process":
        s, r = e["roles"]["s"], e["roles"]["r"]
        for o in pre:
            if o != s and post.get(o) != pre[o]:
                kind = pre[o]["kind"]
                if kind == "rec":
                    changed = [i + 1 for i, (a, b) in enumerate(zip(pre[o]["slots"], post[o]["slots"])) if a != b]
                    return f"InputsUntouched(recording {o} slots {changed} changed)"
                return f"bystander-changed({o}:{kind})"
        fs = set(e["fftslots"])
        for i, (a, b) in enumerate(zip(pre[s]["slots"], post[s]["slots"]), start=1):
            if a != b and i not in fs:
                return f"settings-changed-outside-fft(slot {i})"
        cells_pre = {c for o in pre.values() for c, d in o["slots"] if c}
        if r in post and any(c and c in cells_pre for c, d in post[r]["slots"]):
            return "FreshResult(result shares storage with its inputs)"
        if e.get("repeats") and e.get("sameN"):
            return "Repeatable(exact repeat at the same FFT length differs)"
        return "other"
    if e["op"] == "Modify":
        o = e["roles"]["o"]
        for x in pre:
            if x != o and post.get(x) != pre[x]:
                return f"ResultsImmutable/bystander({x}:{pre[x]['kind']} changed when {o} was modified)"
    return "other"


if __name__ == "__main__":
    sys.path.insert(0, __file__.rsplit("/", 1)[0])
    main_wrapper(main)
