"""C10 - preprocessing applies the documented steps in order; windows tile the record.

spec/Split.tla: exact tiling (k = whole sample intervals in the window length in
exact arithmetic, window j = samples j*k .. j*k+k) for every record length N,
sampling rate and window length on the half-interval lattice; TLC checks the
tiling lemmas (starts on j*k, shared boundary sample, span k+1, only the last
window may be short, tail shorter than a window, too long = error) and exports
every case.  Each case is run through TimeSeries.split, SeismicRecording3C.split
and preprocess on ramp records (sample value = position), incl. the sampling
rates 75/150/300 Hz whose reciprocal is not exact in binary.
spec/PreOrder.tla: the step sequence for every settings combination; the harness
executes it with the library's own primitives and requires equality with
preprocess(), and a difference for the wrong orders (non-vacuity).
"""
import copy
import sys
import warnings
from fractions import Fraction

import numpy as np

from vcommon import Run, tlc, require_tlc_ok, import_hvsrpy, main_wrapper


def main():
    run = Run("C10")
    h = import_hvsrpy()
    cfg = "Split_quick" if run.quick else "Split_thorough"
    res = tlc("Split", cfg, timeout=3000)
    require_tlc_ok(res, cfg)
    run.add_tlc(res, f"{cfg}: StartsOnJK ShareBoundarySample SpanKPlus1 InsideRecord TailShorter TooLongIsError ExactMultiple")
    cases = [c for c in res.cases if isinstance(c, dict) and "lnum" in c]
    for c in cases:
        n, fs, lnum = c["n"], c["fs"], c["lnum"]
        dt = 1.0 / fs
        L = float(Fraction(lnum, 2 * fs))
        ramp = np.arange(n, dtype=float)
        key = f"n={n} fs={fs} window={lnum}/(2*{fs}) s (k={c['k']})"
        cls = "exact-multiple" if lnum % 2 == 0 else "non-multiple"
        rep = dict(kind="split", n=n, fs=fs, lnum=lnum)

        def judge(what, call, check_window):
            try:
                wins = call()
            except ValueError as e:
                if not c["err"] and not c["tie"]:
                    run.violation(f"split:{what}:unexpected-error:{cls}:fs={fs}", f"{what}: {key} raised ValueError ({e}); expected {len(c['win'])} windows", rep)
                return
            if c["err"]:
                run.violation(f"split:{what}:no-error:{cls}", f"{what}: {key}: the window is longer than the record but {len(wins)} windows were returned", rep)
                return
            got = [check_window(w) for w in wins]
            want = [(w["start"], w["len"]) for w in c["win"]]
            if got != want:
                if c["tie"] and got == []:
                    return
                run.violation(f"split:{what}:{cls}:fs={fs}", f"{what}: {key}: windows (start, length) {got[:6]}{'...' if len(got) > 6 else ''} "
                              f"({len(got)}), expected {want[:6]}{'...' if len(want) > 6 else ''} ({len(want)})", rep)

        def w_ts(w):
            a = w.amplitude
            if len(a) == 0:
                return (-1, 0)
            s = int(a[0])
            if not np.array_equal(a, ramp[s:s + len(a)]) or w.dt_in_seconds != dt:
                return ("altered", len(a))
            return (s, len(a))

        ts = h.TimeSeries(ramp, dt)
        judge("TimeSeries.split", lambda: ts.split(L), w_ts)
        if not np.array_equal(ts.amplitude, ramp):
            run.violation("split:mutates-source", f"{key}: split changed the record", rep)
        if (n + lnum + fs) % 3 == 0:
            rec = h.SeismicRecording3C(h.TimeSeries(ramp, dt), h.TimeSeries(ramp + 1000, dt), h.TimeSeries(ramp + 2000, dt),
                                       degrees_from_north=30.0)

            def w_rec(w):
                a = w_ts(w.ns)
                ok = (np.array_equal(w.ew.amplitude, w.ns.amplitude + 1000) and np.array_equal(w.vt.amplitude, w.ns.amplitude + 2000)
                      and w.degrees_from_north == 30.0)
                return a if ok else ("components-differ", a[1])
            judge("SeismicRecording3C.split", lambda: rec.split(L), w_rec)
            st = h.HvsrPreProcessingSettings(orient_to_degrees_from_north=None, filter_corner_frequencies_in_hz=[None, None],
                                             window_length_in_seconds=L, detrend=None)
            rec2 = copy.deepcopy(rec)
            judge("preprocess", lambda: h.preprocess([rec2], st), w_rec)
        nt = (n, fs, lnum) if (not c["err"] and len(c["win"]) >= 2) else None
        run.case(nt, sample=dict(n=n, fs=fs, window_length_s=L, k=c["k"], windows=c["win"][:4]) if nt and fs in (75, 300) and len(run.samples) < 3 else None)

    # window lengths a hair below / above a whole number of intervals with a LARGE k (k = whole intervals in L, exact arithmetic:
    # 59.9995 s at 100 Hz holds 5999 intervals, not 6000) - Window(j) of Split.tla evaluated with Fractions
    for n, fs, L in ((24001, 100, Fraction(599995, 10000)), (24001, 100, Fraction(600005, 10000)), (9001, 75, Fraction(299999, 10000)),
                     (20001, 200, Fraction(999995, 100000)), (18001, 100, Fraction(60)), (13501, 75, Fraction(30))):
        k = (L * fs).numerator // (L * fs).denominator
        nw = n // k
        want = [(j * k, k + 1 if j * k + k + 1 <= n else n - j * k) for j in range(nw)]
        ramp = np.arange(n, dtype=float)
        tsr = h.TimeSeries(ramp, 1.0 / fs)
        rec = h.SeismicRecording3C(h.TimeSeries(ramp, 1.0 / fs), h.TimeSeries(ramp, 1.0 / fs), h.TimeSeries(ramp, 1.0 / fs))
        st = h.HvsrPreProcessingSettings(orient_to_degrees_from_north=None, filter_corner_frequencies_in_hz=[None, None], window_length_in_seconds=float(L), detrend=None)
        for what, wins in (("TimeSeries.split", lambda: [(int(w.amplitude[0]), len(w.amplitude)) for w in tsr.split(float(L))]),
                           ("SeismicRecording3C.split", lambda: [(int(w.vt.amplitude[0]), len(w.vt.amplitude)) for w in rec.split(float(L))]),
                           ("preprocess", lambda: [(int(w.ew.amplitude[0]), len(w.ew.amplitude)) for w in h.preprocess([copy.deepcopy(rec)], st)])):
            try:
                got = wins()
            except Exception as e:
                got = f"{type(e).__name__}: {e}"
            if got != want:
                run.violation(f"split:{what}:large-k", f"{what}: n={n} fs={fs} window={float(L)} s holds k={k} whole intervals: windows (start, length) "
                              f"{got[:3] if isinstance(got, list) else got}..., expected {want[:3]}... ({len(want)})", dict(kind="split-large-k", n=n, fs=fs, L=float(L)))
        run.case(("split-large-k", n, fs, float(L)))
    order_checks(run, h)
    return run.finish(
        rule="every (N, sampling rate, window length on the half-interval lattice) case of spec/Split.tla on TimeSeries.split "
             "(all), SeismicRecording3C.split and preprocess (every third); every settings combination of spec/PreOrder.tla "
             "executed with the library's primitives vs preprocess(); non-trivial = at least two windows",
        exhaustive=True)


def order_checks(run, h):
    res = tlc("PreOrder", "PreOrder", timeout=600, workers=4)
    require_tlc_ok(res, "PreOrder")
    run.add_tlc(res, "PreOrder: OrderOK for every settings combination")
    combos = [c for c in res.cases if isinstance(c, dict) and "steps" in c]
    rng = np.random.RandomState(run.seed)
    fs = 100.0
    corners = {"none": [None, None], "low": [None, 12.0], "high": [1.5, None], "band": [1.5, 12.0]}
    nrec = 8
    base = []
    for r in range(nrec):
        # 380, 397: a tail is discarded; 300 = 3 x 100 and 292 = 4 x 73 samples: the record ends exactly on a window
        # boundary, so the final window is the one that is one sample short; the last two have other sampling rates
        # (one call on recordings with different time steps: every step acts on each recording at its own rate)
        # (93 and 99 Hz: 1 / (1 / fs) comes out as 92.99999999999999 / 98.99999999999999 in binary)
        n = (380, 397, 300, 292, 311, 205, 390, 401)[r]
        fs = (100.0, 100.0, 100.0, 100.0, 75.0, 50.0, 93.0, 99.0)[r]
        mk = lambda: np.cumsum(rng.normal(size=n)) * 0.3 + rng.normal(size=n) + 0.01 * np.arange(n)
        base.append(h.SeismicRecording3C(h.TimeSeries(mk(), 1 / fs), h.TimeSeries(mk(), 1 / fs), h.TimeSeries(mk(), 1 / fs),
                                         degrees_from_north=15.0 * (r + 1)))

    # the filter primitive itself, against an independent statement of "zero-phase Butterworth with these corners":
    # forward-backward second-order sections of the order-5 design at the record's own sampling rate; a sinusoid in the
    # pass band survives, one far in the stop band does not
    from scipy.signal import butter, sosfiltfilt
    for rec in base:
        fs_r = 1.0 / rec.ns.dt_in_seconds
        for cname, (lo, hi) in corners.items():
            if cname == "none":
                continue
            btype, wn = ("lowpass", hi) if lo is None else ("highpass", lo) if hi is None else ("bandpass", [lo, hi])
            want = sosfiltfilt(butter(5, wn, btype, fs=fs_r, output="sos"), rec.ns.amplitude)
            w = copy.deepcopy(rec)
            w.butterworth_filter([lo, hi])
            if not np.allclose(w.ns.amplitude, want, rtol=1e-9, atol=1e-9 * np.max(np.abs(want))):
                run.violation(f"filter:{cname}", f"butterworth_filter({[lo, hi]}) at {fs_r} Hz differs from the zero-phase order-5 Butterworth "
                              f"filter with these corners (max abs diff {np.max(np.abs(w.ns.amplitude - want)):.3g})", dict(kind="filter", corners=cname, fs=fs_r))
            n_l = 4000
            tt = np.arange(n_l) / fs_r
            f_pass = {"low": 3.0, "high": 8.0, "band": 4.0}[cname]
            f_stop = {"low": 24.0, "high": 0.2, "band": 24.0}[cname]
            for f0, keep in ((f_pass, True), (f_stop, False)):
                x = np.sin(2 * np.pi * f0 * tt)
                t1 = h.TimeSeries(x.copy(), 1 / fs_r)
                t1.butterworth_filter([lo, hi])
                mid = slice(n_l // 4, 3 * n_l // 4)
                gain = np.max(np.abs(t1.amplitude[mid]))
                if (keep and abs(gain - 1) > 0.02) or (not keep and gain > 0.05):
                    run.violation(f"filter:{cname}:gain", f"butterworth_filter({[lo, hi]}) at {fs_r} Hz: a {f0} Hz sinusoid leaves with amplitude {gain:.3f} "
                                  f"({'pass' if keep else 'stop'} band)", dict(kind="filter-gain", corners=cname, fs=fs_r, f0=f0))
            run.case(("filter", cname, fs_r))

    def run_steps(recs, steps, c):
        out = []
        for rec in recs:
            rec = copy.deepcopy(rec)
            wins = [rec]
            for s in steps:
                if s == "orient":
                    rec.orient_sensor_to(float(c["o"]))
                elif s == "filter":
                    with warnings.catch_warnings():
                        warnings.simplefilter("ignore")
                        for w in wins:
                            w.butterworth_filter(corners[c["f"]])
                elif s == "split":
                    wins = [x for w in wins for x in w.split(float(c["s"]))]
                elif s == "detrend_each":
                    for w in wins:
                        w.detrend(type=c["d"])
                elif s == "detrend_whole":
                    rec.detrend(type=c["d"])
            out.extend(wins)
        return out

    def same(a, b):
        return len(a) == len(b) and all(np.array_equal(x.ns.amplitude, y.ns.amplitude) and np.array_equal(x.ew.amplitude, y.ew.amplitude)
                                        and np.array_equal(x.vt.amplitude, y.vt.amplitude) and x.degrees_from_north == y.degrees_from_north
                                        for x, y in zip(a, b))

    nonvac = 0
    for c in combos:
        st = h.HvsrPreProcessingSettings(orient_to_degrees_from_north=None if c["o"] == "none" else float(c["o"]),
                                         filter_corner_frequencies_in_hz=corners[c["f"]],
                                         window_length_in_seconds=None if c["s"] == "none" else float(c["s"]),
                                         detrend=None if c["d"] == "none" else c["d"])
        for recs in ([base[0]], base, [base[2]], [base[3]], base[::-1]):
            with warnings.catch_warnings():
                warnings.simplefilter("ignore")
                got = h.preprocess(copy.deepcopy(recs), st)
            want = run_steps(recs, c["steps"], c)
            if not same(got, want):
                run.violation(f"order:{'+'.join(c['steps']) or 'no-step'}",
                              f"preprocess with orient={c['o']} filter={c['f']} window={c['s']} detrend={c['d']} differs from the documented "
                              f"order {c['steps']} executed with the library's own primitives ({len(recs)} recording(s))",
                              dict(kind="order", combo=c))
            run.case(("order", c["o"], c["f"], c["s"], c["d"]) if len(c["steps"]) >= 2 else None)
        # non-vacuity: the wrong orders give a different answer on the same instance
        if "split" in c["steps"] and "detrend_each" in c["steps"]:
            wrong = [s for s in c["steps"] if s != "detrend_each"]
            wrong.insert(wrong.index("split"), "detrend_whole")
            if not same(run_steps(base, wrong, c), run_steps(base, c["steps"], c)):
                nonvac += 1
        if "split" in c["steps"] and "filter" in c["steps"]:
            wrong = [s for s in c["steps"] if s != "filter"]
            wrong.insert(wrong.index("split") + 1, "filter")
            if not same(run_steps(base, wrong, c), run_steps(base, c["steps"], c)):
                nonvac += 1
    run.notes["wrong_orders_distinguished"] = nonvac
    if nonvac == 0:
        raise Exception("non-vacuity failed: wrong step orders are indistinguishable on the instances used")


if __name__ == "__main__":
    sys.path.insert(0, __file__.rsplit("/", 1)[0])
    main_wrapper(main)
