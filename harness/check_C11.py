"""C11 - azimuthal statistics give every azimuth equal weight (Cheng et al. 2020).

spec/HvsrObject.tla with NA = 2 (and NA = 1 for the degenerate case): TLC
explores all histories of an azimuthal object, checks the algebraic content of
the weighting in every reachable state (single azimuth = traditional, equal
counts = pooled, order of azimuths irrelevant, mean = mean of azimuth means)
and exports the exact weighted statistics; the graph is replayed on real
HvsrAzimuthal objects and every weighted accessor compared in every state.
"""
import sys
import warnings

import numpy as np

from vcommon import Run, import_hvsrpy, main_wrapper
import hvsrobj
from hvsrobj import rat
from check_C05 import ALPHA6, RTOL


class WHook:
    def __init__(self, run, hvsrpy, na):
        self.run, self.h, self.na, self.n = run, hvsrpy, na, 0

    def cmp(self, name, got, exp, sline, cv, inst, atol=1e-12):
        self.n += 1
        try:
            got = np.asarray(got, dtype=float)
        except Exception:
            got = np.array([np.nan])
        exp = np.asarray(exp, dtype=float)
        ok = got.shape == exp.shape and bool(np.all(np.abs(got - exp) <= atol + RTOL * np.abs(exp)))
        if not ok:
            s = sline["s"]
            peakless = any(v and p == 0 for rv, rp in zip(s["vp"], s["pk"]) for v, p in zip(rv, rp))
            flat = any(all(p == 0 for p in rp) for rp in s["pk"])
            cls = "peakless-window-accepted" if peakless else ("azimuth-without-any-peak" if flat else "regular-state")
            self.run.violation(f"wstat:{name}:{cls}",
                               f"{name} on instance {inst.name()} cv={cv} state={s}: got {got.tolist()} expected "
                               f"{exp.tolist()} (every azimuth weighs 1/{self.na}, windows of an azimuth share it equally)",
                               dict(kind="wstat", accessor=name, cv=cv, state=s, inst=inst.name(), expected=exp.tolist()))

    def call(self, name, fn, exp, sline, cv, inst):
        try:
            got = fn()
        except Exception as e:
            got = f"{type(e).__name__}: {e}"
            self.n += 1
            s = sline["s"]
            peakless = any(v and p == 0 for rv, rp in zip(s["vp"], s["pk"]) for v, p in zip(rv, rp))
            flat = any(all(p == 0 for p in rp) for rp in s["pk"])
            cls = "peakless-window-accepted" if peakless else ("azimuth-without-any-peak" if flat else "regular-state")
            self.run.violation(f"wstat:{name}:{cls}", f"{name} on {inst.name()} cv={cv} state={s} raised {got}; expected {exp}",
                               dict(kind="wstat", accessor=name, cv=cv, state=s, inst=inst.name()))
            return
        self.cmp(name, got, exp, sline, cv, inst)

    def dists(self, d):
        return ["normal"] if d == "normal" else ["lognormal", "log-normal"]

    def light(self, real, obj, sline, cv):
        """cheap subset run after every single action on the history-carrying object (stale caches show here)"""
        if self.na == 1:
            return
        inst = real.inst
        w = sline["w"]
        with warnings.catch_warnings():
            warnings.simplefilter("ignore")
            if w["ok"]:
                self.call(f"mean_fn_frequency[{inst.dist_f}]", lambda: obj.mean_fn_frequency(inst.dist_f), inst.f_mean(rat(w["mf"])), sline, cv, inst)
                self.call(f"std_fn_frequency[{inst.dist_f}]", lambda: obj.std_fn_frequency(inst.dist_f), inst.f_std(rat(w["vf"])), sline, cv, inst)
            if w["okc"]:
                self.call(f"mean_curve[{inst.dist_a}]", lambda: obj.mean_curve(inst.dist_a), [inst.a_mean(rat(m)) for m in w["mc"]], sline, cv, inst)
                self.call(f"std_curve[{inst.dist_a}]", lambda: obj.std_curve(inst.dist_a), [inst.a_std(rat(v)) for v in w["vc"]], sline, cv, inst)

    def __call__(self, real, obj, sline, cv):
        inst = real.inst
        w = sline["w"]
        if self.na == 1:
            # a one-azimuth HvsrAzimuthal around the traditional object
            obj = self.h.HvsrAzimuthal([obj], [0.0])
            inner = obj.hvsrs[0]
            s = sline["s"]
            inner.update_peaks_bounded(search_range_in_hz=(inst.hz(s["r"][0]), inst.hz(s["r"][1])))
            inner.valid_window_boolean_mask = np.array(s["vw"][0])
            inner.valid_peak_boolean_mask = np.array(s["vp"][0])
        with warnings.catch_warnings():
            warnings.simplefilter("ignore")
            if w["ok"]:
                mf, vf, ma, va, cfa = (rat(w[k]) for k in ("mf", "vf", "ma", "va", "cfa"))
                for d in self.dists(inst.dist_f):
                    self.call(f"mean_fn_frequency[{d}]", lambda: obj.mean_fn_frequency(d), inst.f_mean(mf), sline, cv, inst)
                    self.call(f"std_fn_frequency[{d}]", lambda: obj.std_fn_frequency(d), inst.f_std(vf), sline, cv, inst)
                    self.call(f"nth_std_fn_frequency[{d}]", lambda: obj.nth_std_fn_frequency(-1.5, d), inst.f_nth(mf, vf, -1.5), sline, cv, inst)
                for d in self.dists(inst.dist_a):
                    self.call(f"mean_fn_amplitude[{d}]", lambda: obj.mean_fn_amplitude(d), inst.a_mean(ma), sline, cv, inst)
                    self.call(f"std_fn_amplitude[{d}]", lambda: obj.std_fn_amplitude(d), inst.a_std(va), sline, cv, inst)
                    self.call(f"nth_std_fn_amplitude[{d}]", lambda: obj.nth_std_fn_amplitude(2, d), inst.a_nth(ma, va, 2), sline, cv, inst)
                if inst.fenc == inst.aenc:
                    fs, as_ = inst.cov_scale()
                    exp = [[vf * fs * fs, cfa * fs * as_], [cfa * fs * as_, va * as_ * as_]]
                    for d in self.dists(inst.dist_f):
                        self.call(f"cov_fn[{d}]", lambda: obj.cov_fn(d), exp, sline, cv, inst)
            if w["okc"]:
                mc = [rat(x) for x in w["mc"]]
                vc = [rat(x) for x in w["vc"]]
                for d in self.dists(inst.dist_a):
                    self.call(f"mean_curve[{d}]", lambda: obj.mean_curve(d), [inst.a_mean(m) for m in mc], sline, cv, inst)
                    self.call(f"std_curve[{d}]", lambda: obj.std_curve(d), [inst.a_std(v) for v in vc], sline, cv, inst)
                    self.call(f"nth_std_curve[{d}]", lambda: obj.nth_std_curve(1, d),
                              [inst.a_nth(m, v, 1) for m, v in zip(mc, vc)], sline, cv, inst)
                d = inst.dist_a
                try:
                    f, a = obj.mean_curve_peak(d)
                    gi = inst.idx(float(f))
                except ValueError:
                    gi, a = 0, None
                except Exception as e:
                    gi, a = -2, None
                if gi not in w["mcp"]:
                    self.run.violation("wstat:mean_curve_peak", f"mean_curve_peak on {inst.name()} cv={cv} state={sline['s']}: "
                                       f"grid index {gi} not in allowed {w['mcp']}",
                                       dict(kind="wstat", accessor="mean_curve_peak", cv=cv, state=sline["s"], inst=inst.name()))
                elif gi > 0:
                    self.cmp("mean_curve_peak amplitude", a, inst.a_mean(mc[gi - 1]), sline, cv, inst)
            # "nothing depends on rejected windows": a fresh object holding only the accepted windows (so the azimuths
            # have DIFFERENT numbers of windows and none is rejected) has the statistics of this state
            s = sline["s"]
            if self.na >= 2 and all(any(rv) for rv in s["vw"]) and any(not v for rv in s["vw"] for v in rv) and \
                    all(vp_ == vw_ and (p != 0 or not vw_) for rv, rp, rk in zip(s["vw"], s["vp"], s["pk"]) for vw_, vp_, p in zip(rv, rp, rk)):
                trads = []
                for a_i in range(self.na):
                    rows = np.array([inst.amp(real.alphabet[c - 1]) for c, keep in zip(cv[a_i], s["vw"][a_i]) if keep])
                    t_ = self.h.HvsrTraditional(inst.freq, rows, meta={"processing_method": "traditional"})
                    trads.append(t_)
                comp = self.h.HvsrAzimuthal(trads, list(obj.azimuths), meta={"processing_method": "azimuthal"})
                comp.update_peaks_bounded(search_range_in_hz=(inst.hz(s["r"][0]), inst.hz(s["r"][1])))
                self.compacted = getattr(self, "compacted", 0) + 1
                if len({sum(rv) for rv in s["vw"]}) > 1:
                    self.compacted_unequal = getattr(self, "compacted_unequal", 0) + 1
                if w["okc"]:
                    mc = [rat(x) for x in w["mc"]]
                    vc = [rat(x) for x in w["vc"]]
                    d = inst.dist_a
                    self.call(f"compacted:mean_curve[{d}]", lambda: comp.mean_curve(d), [inst.a_mean(m) for m in mc], sline, cv, inst)
                    self.call(f"compacted:std_curve[{d}]", lambda: comp.std_curve(d), [inst.a_std(v) for v in vc], sline, cv, inst)
                if w["ok"]:
                    self.call(f"compacted:mean_fn_frequency[{inst.dist_f}]", lambda: comp.mean_fn_frequency(inst.dist_f), inst.f_mean(rat(w["mf"])), sline, cv, inst)
                    self.call(f"compacted:std_fn_frequency[{inst.dist_f}]", lambda: comp.std_fn_frequency(inst.dist_f), inst.f_std(rat(w["vf"])), sline, cv, inst)
                # an azimuthal result ASSEMBLED from per-azimuth objects that carry this history (rejections made on them before):
                # whichever windows the new object reports as accepted - all of them (today) or the ones accepted on the inputs -
                # no rejected window counts in its resonance statistics, and its statistics are those of its accepted windows alone
                if getattr(self, "rebuilt", 0) < 400:
                    self.rebuilt = getattr(self, "rebuilt", 0) + 1
                    reb = self.h.HvsrAzimuthal(list(obj.hvsrs), list(obj.azimuths), meta={"processing_method": "azimuthal"})
                    vws = [np.array(x.valid_window_boolean_mask, dtype=bool) for x in reb.hvsrs]
                    vps = [np.array(x.valid_peak_boolean_mask, dtype=bool) for x in reb.hvsrs]
                    if any(np.any(vp_ & ~vw_) for vw_, vp_ in zip(vws, vps)):
                        self.run.violation("wstat:assembled:rejected-window-counts", f"HvsrAzimuthal assembled from per-azimuth objects in state {s} on {inst.name()} cv={cv}: "
                                           f"window masks {[v.tolist() for v in vws]} but peak masks {[v.tolist() for v in vps]} - a rejected window enters the resonance statistics",
                                           dict(kind="wstat", accessor="assembled", cv=cv, state=s, inst=inst.name()))
                    elif all(v.sum() >= 1 for v in vws):
                        rows_ = [np.array([inst.amp(real.alphabet[c - 1]) for c, keep in zip(cv[a_i], vws[a_i]) if keep]) for a_i in range(self.na)]
                        only = self.h.HvsrAzimuthal([self.h.HvsrTraditional(inst.freq, r_) for r_ in rows_], list(obj.azimuths))
                        for nm, fa, fb in (("mean_curve", lambda: reb.mean_curve(inst.dist_a), lambda: only.mean_curve(inst.dist_a)),
                                           ("mean_fn_frequency", lambda: reb.mean_fn_frequency(inst.dist_f), lambda: only.mean_fn_frequency(inst.dist_f)),
                                           ("std_fn_frequency", lambda: reb.std_fn_frequency(inst.dist_f), lambda: only.std_fn_frequency(inst.dist_f))):
                            try:
                                va_, vb_ = fa(), fb()
                            except Exception:
                                continue
                            if not np.allclose(va_, vb_, rtol=1e-9, equal_nan=True):
                                self.run.violation(f"wstat:assembled:{nm}", f"HvsrAzimuthal assembled from per-azimuth objects in state {s} on {inst.name()} cv={cv}: {nm} = {va_}, "
                                                   f"an object holding only its accepted windows has {vb_}", dict(kind="wstat", accessor="assembled", cv=cv, state=s, inst=inst.name()))
            # per-azimuth views are the traditional statistics of that azimuth
            azs = sline["az"]
            if all(a_["ncv"] >= 2 for a_ in azs):
                exp = [[inst.a_mean(rat(m)) for m in a_["mc"]] for a_ in azs]
                self.call("mean_curve_by_azimuth", lambda: obj.mean_curve_by_azimuth(inst.dist_a), exp, sline, cv, inst)


def zero_amplitude(run, hvsrpy):
    """An amplitude of exactly 0 in an accepted window (legal input): under the lognormal assumption the log-space average over azimuths
    of the per-azimuth log means is minus infinity at that sample - the mean curve is 0 there and the standard deviation is not finite;
    every other sample is weighted as ever (never a finite value computed from a subset of the accepted windows and a weight that
    stays behind), and a single azimuth equals the traditional result."""
    import warnings
    f = np.array([1.0, 2.0, 3.0, 4.0, 5.0, 6.0])
    a0 = np.array([[1.0, 2.0, 3.0, 0.0, 1.0, 1.5], [1.0, 3.0, 2.0, 1.0, 1.0, 1.2], [1.0, 2.5, 3.0, 2.0, 1.0, 1.1]])
    a1 = np.array([[1.5, 2.2, 3.3, 2.4, 1.0, 1.3], [1.1, 2.1, 3.4, 1.9, 1.2, 1.4], [1.3, 2.0, 3.1, 2.2, 1.1, 1.6], [1.2, 2.4, 3.0, 2.1, 1.3, 1.2]])
    col = 3
    for rej in ((), (1,)):
        t0, t1 = hvsrpy.HvsrTraditional(f, a0), hvsrpy.HvsrTraditional(f, a1)
        obj = hvsrpy.HvsrAzimuthal([t0, t1], [0.0, 90.0])
        for w in rej:
            obj.hvsrs[0].valid_window_boolean_mask[w] = False
            obj.hvsrs[0].valid_peak_boolean_mask[w] = False
        acc0 = [w for w in range(3) if w not in rej]
        with warnings.catch_warnings(), np.errstate(divide="ignore", invalid="ignore"):
            warnings.simplefilter("ignore")
            mean_l, std_l = np.asarray(obj.mean_curve("lognormal")), np.asarray(obj.std_curve("lognormal"))
            mean_n = np.asarray(obj.mean_curve("normal"))
            rows = np.vstack([a0[acc0], a1])
            wts = np.array([1.0 / (2 * len(acc0))] * len(acc0) + [1.0 / 8.0] * 4)
            lm = np.sum(wts[:, None] * np.log(rows), axis=0)
            want_mean = np.exp(lm)
            want_std = np.sqrt(np.sum(wts[:, None] * (np.log(rows) - lm) ** 2, axis=0) / (1.0 - np.sum(wts ** 2)))
            want_mean_n = np.sum(wts[:, None] * rows, axis=0)
            single = hvsrpy.HvsrAzimuthal([hvsrpy.HvsrTraditional(f, a0)], [0.0])
            s_mean, t_mean = np.asarray(single.mean_curve("lognormal")), np.asarray(hvsrpy.HvsrTraditional(f, a0).mean_curve("lognormal"))
        others = [c for c in range(len(f)) if c != col]
        ok = (np.allclose(mean_l[others], want_mean[others], rtol=1e-12) and np.allclose(std_l[others], want_std[others], rtol=1e-10)
              and np.allclose(mean_n, want_mean_n, rtol=1e-12) and mean_l[col] == 0.0 and not np.isfinite(std_l[col])
              and np.allclose(s_mean, t_mean, rtol=1e-12, equal_nan=True))
        if not ok:
            run.violation("wstat:zero-amplitude", f"windows {list(rej)} of azimuth 0 rejected, window 0 of azimuth 0 is exactly 0 at {f[col]} Hz: lognormal mean curve "
                          f"{mean_l.tolist()}, std curve {std_l.tolist()}; the weighted estimators give {want_mean.tolist()} / {want_std.tolist()}; single azimuth "
                          f"{s_mean.tolist()} vs traditional {t_mean.tolist()}", dict(kind="wstat-zero", rejected=list(rej)))
        run.case(("zero-amp", rej))


def main():
    run = Run("C11")
    hvsrpy = import_hvsrpy()
    quick = run.quick
    # NA = 2
    nw = 3
    alpha, alpha_n = ("Alpha6a", 6)
    k_mc, k_ex = (9000, 12000) if quick else (900, 2500)   # of 6^6 = 46656 assignments
    mc = hvsrobj.cfg_text(2, nw, 6, alpha, "Ranges6s", "NSetA", "MaxItsA", "InitEnv", export=False,
                          invariants=["TypeOK", "PeaksCurrent", "AccFnHavePeaks", "EqualCountsIsPooled",
                                      "AzimuthOrderIrrelevant", "MeanOfAzimuthMeans"], props=["TdStep"])
    res, _ = hvsrobj.export_graph(mc, "C11-mc", {"VERIF_K": k_mc, "VERIF_SEED": run.seed}, timeout=3000)
    run.add_tlc(res, "HvsrObject NA=2 (I tier): EqualCountsIsPooled, AzimuthOrderIrrelevant, MeanOfAzimuthMeans in every state")
    mc1 = hvsrobj.cfg_text(1, 3 if quick else 4, 6, "Alpha6a" if quick else "Alpha6", "Ranges6s" if quick else "Ranges6", "NSetA", "MaxItsA", "InitSorted", export=False,
                           invariants=["SingleAzimuthIsTraditional"])
    res, _ = hvsrobj.export_graph(mc1, "C11-mc1", {}, timeout=3000)
    run.add_tlc(res, "HvsrObject NA=1: SingleAzimuthIsTraditional in every state")

    ex = hvsrobj.cfg_text(2, nw, 6, alpha, "Ranges6s", "NSetA", "MaxItsA", "InitEnv", export=True)
    res, graph = hvsrobj.export_graph(ex, "C11-export", {"VERIF_K": k_ex, "VERIF_SEED": run.seed}, timeout=3000)
    run.add_tlc(res, f"HvsrObject NA=2 export, hash bucket {run.seed} mod {k_ex}")
    consts = (f"  NA = 2\n  NW = {nw}\n  NF = 6\n  Alphabet <- {alpha}\n  Ranges <- Ranges6s\n  NSet <- NSetA\n"
              f"  MaxIts <- MaxItsA\n  TdMasks <- AllMasks\n  InitSel <- InitAll\n  SThr <- SThrHalf\n")
    rp = hvsrobj.Replayer(run, hvsrpy, graph, ALPHA6[:alpha_n], 2, nw, 6, consts, focus={"Init"})
    hook = WHook(run, hvsrpy, 2)
    insts = (("N", "N"), ("L", "L"), ("N", "L")) if quick else (("N", "N"), ("L", "L"), ("N", "L"), ("L", "N"))
    for fenc, aenc in insts:
        rp.replay(hvsrobj.Instance(6, fenc, aenc), state_hook=hook, step_hook=hook.light)
    # nearly identical curves (8 + level * 2^-17, exact in binary): the weighted estimators must not lose the scatter
    rp.replay(hvsrobj.Instance(6, "N", "N", ascale=2.0 ** -17, aoff=8.0), state_hook=hook)
    rp.validate_pending()
    run.notes["replay_NA2"] = rp.stats

    # 2 azimuths x 4 windows on the 6-point grid: accept patterns such as (2, 4) and (1, 5 - n/a) make the TOTAL number of accepted
    # windows equal to the number of frequency samples while the azimuths differ in count (array-shape coincidences)
    ex4 = hvsrobj.cfg_text(2, 4, 6, alpha, "Ranges6s", "NSetA", "MaxItsA", "InitDistinct", export=True, nxt="NextRejectOnly")
    res4, graph4 = hvsrobj.export_graph(ex4, "C11-export4", {}, timeout=3000)
    run.add_tlc(res4, "HvsrObject NA=2 NW=4 NextRejectOnly export from InitDistinct (all per-azimuth accept patterns)")
    consts4 = consts.replace(f"NW = {nw}", "NW = 4")
    rp4 = hvsrobj.Replayer(run, hvsrpy, graph4, ALPHA6[:alpha_n], 2, 4, 6, consts4, focus={"Init"})
    n_before = hook.n
    for fenc, aenc in (("N", "N"), ("L", "L")):
        rp4.replay(hvsrobj.Instance(6, fenc, aenc), state_hook=hook)
    # the azimuths are labels: 0 and 180 degrees (the two ends of the admissible interval) are two azimuths like any other pair
    rp4.replay(hvsrobj.Instance(6, "L", "N", azimuths=[0.0, 180.0]), state_hook=hook)
    rp4.validate_pending()
    run.notes["replay_NA2_NW4"] = rp4.stats
    run.notes["accessor_comparisons_NW4"] = hook.n - n_before

    # NA = 1: the weighted accessors of a one-azimuth object against the exact traditional statistics
    ex1 = hvsrobj.cfg_text(1, 3, 6, "Alpha6a", "Ranges6", "NSetA", "MaxItsA", "InitEnv", export=True)
    res, graph1 = hvsrobj.export_graph(ex1, "C11-export1", {"VERIF_K": 36 if quick else 12, "VERIF_SEED": run.seed}, timeout=3000)
    run.add_tlc(res, "HvsrObject NA=1 export")
    consts1 = consts.replace("NA = 2", "NA = 1").replace("Ranges6s", "Ranges6")
    rp1 = hvsrobj.Replayer(run, hvsrpy, graph1, ALPHA6[:6], 1, 3, 6, consts1, focus={"Init"})
    hook1 = WHook(run, hvsrpy, 1)
    for fenc, aenc in (("N", "N"), ("L", "L")):
        rp1.replay(hvsrobj.Instance(6, fenc, aenc), state_hook=hook1)
    rp1.validate_pending()
    run.notes["replay_NA1"] = rp1.stats
    run.notes["accessor_comparisons"] = hook.n + hook1.n
    run.notes["compacted_objects_compared"] = getattr(hook, "compacted", 0)
    run.notes["compacted_objects_with_unequal_counts"] = getattr(hook, "compacted_unequal", 0)
    if getattr(hook, "compacted_unequal", 0) == 0:
        raise Exception("non-vacuity failed: no state with unequal accepted counts was rebuilt without its rejected windows")
    zero_amplitude(run, hvsrpy)
    # ---- per-azimuth accept / reject states are per azimuth and per object (spec/TraceResultHeap.tla): a rejection on one object or
    #      azimuth leaves every other object and azimuth alone, and no two masks share storage
    import resultheap
    resultheap.run_sessions(run, hvsrpy, "C11-result-heap", dict(new_trad=1, assemble=4, update_range=2, reject=8, read_only=3),
                            dict(statistics=4, summary=1, azimuthal_figures=1), 12 if run.quick else 120, 16, "result-heap")
    return run.finish(
        rule="every transition of the exported HvsrObject graph with 2 azimuths x 3 windows replayed on real "
             "HvsrAzimuthal objects; in every state all weighted accessors compared with the exact Cheng-weighted "
             "rational estimator (unequal per-azimuth counts included); one-azimuth objects against the traditional "
             "estimator; non-trivial = transition that changes the abstract state",
        exhaustive=False)


if __name__ == "__main__":
    sys.path.insert(0, __file__.rsplit("/", 1)[0])
    main_wrapper(main)
