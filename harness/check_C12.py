"""C12 - HVSR results survive a write/read round trip after any history.

spec/HvsrObject.tla: the state a reader reconstructs is (curves, masks, the
range recorded in the container's meta `mrng`); TLC checks MetaRangeCurrent
(mrng = rng) in every reachable state, i.e. ReadBack(Write(o)) = o.  Every state
of the exported graph (NA = 1 and NA = 2) is then reached on real objects by
replaying the TLC transitions, written with write_hvsr_object_to_file and read
back: frequencies and curves bit for bit, masks, search range, peaks, every
statistic (==), and the derived columns of the file against the object's own
mean / std curve and against the exact value of the specification.
"""
import json
import os
import sys
import warnings

import numpy as np

from vcommon import Run, import_hvsrpy, main_wrapper, workdir
import hvsrobj
from hvsrobj import rat
from check_C05 import ALPHA6

RTOL = 1e-9


class RoundTripHook:
    def __init__(self, run, hvsrpy, na, wd):
        self.run, self.h, self.na, self.wd, self.n = run, hvsrpy, na, wd, 0
        self.fn = os.path.join(wd, f"rt{na}.csv")

    def fail(self, key, msg, sline, cv, inst):
        s = sline["s"]
        stale = s["m"] != s["r"]
        self.run.violation(f"roundtrip:{key}:{'azimuthal' if self.na > 1 else 'traditional'}",
                           f"{msg} | instance {inst.name()} cv={cv} state={s}",
                           dict(kind="roundtrip", cv=cv, state=s, inst=inst.name(), na=self.na))

    def __call__(self, real, obj, sline, cv):
        inst = real.inst
        s = sline["s"]
        ok_write = all(a["ncv"] >= 2 for a in sline["az"]) if self.na == 1 else sline["w"]["okc"] and all(a["ncv"] >= 1 for a in sline["az"])
        if not ok_write:
            return
        self.n += 1
        before = real.project(obj)
        with warnings.catch_warnings():
            warnings.simplefilter("ignore")
            try:
                self.h.write_hvsr_object_to_file(obj, self.fn, distribution_mc=inst.dist_a, distribution_fn=inst.dist_f)
                back = self.h.read_hvsr_object_from_file(self.fn)
            except Exception as e:
                self.fail("exception", f"write/read raised {type(e).__name__}: {e}", sline, cv, inst)
                return
            if real.project(obj) != before:
                self.fail("writer-mutates", "writing changed the object", sline, cv, inst)
            if type(back) is not type(obj):
                self.fail("type", f"read back {type(back).__name__}", sline, cv, inst)
                return
            # curves and frequencies bit for bit
            if not np.array_equal(np.asarray(back.frequency), np.asarray(obj.frequency)):
                self.fail("frequency", "frequency differs after the round trip", sline, cv, inst)
            ia, ib = real.inner(obj), real.inner(back)
            if len(ia) != len(ib):
                self.fail("azimuth-count", f"{len(ib)} azimuths read back, {len(ia)} written", sline, cv, inst)
                return
            for k, (x, y) in enumerate(zip(ia, ib)):
                if x.amplitude.shape != y.amplitude.shape or not np.array_equal(x.amplitude, y.amplitude):
                    self.fail("curves", f"curves of azimuth {k} differ after the round trip", sline, cv, inst)
            if self.na > 1 and list(back.azimuths) != list(obj.azimuths):
                self.fail("azimuths", f"azimuths {back.azimuths} read back, {obj.azimuths} written", sline, cv, inst)
            after = real.project(back)
            for fld in ("vw", "vp"):
                if after[fld] != before[fld]:
                    self.fail("masks", f"{fld} {after[fld]} read back, {before[fld]} written", sline, cv, inst)
            if after["r"] != before["r"]:
                self.fail("range", f"search range {after['r']} after reading, {before['r']} before writing", sline, cv, inst)
            if after["pk"] != before["pk"]:
                self.fail("peaks", f"peaks {after['pk']} after reading, {before['pk']} before writing", sline, cv, inst)
            # every statistic identical
            for name, args in (("mean_fn_frequency", (inst.dist_f,)), ("std_fn_frequency", (inst.dist_f,)),
                               ("mean_fn_amplitude", (inst.dist_a,)), ("std_fn_amplitude", (inst.dist_a,)),
                               ("mean_curve", (inst.dist_a,)), ("std_curve", (inst.dist_a,)),
                               ("nth_std_curve", (1, inst.dist_a)), ("mean_curve_peak", (inst.dist_a,))):
                try:
                    va = np.asarray(getattr(obj, name)(*args), dtype=float)
                except Exception:
                    continue       # undefined on the written object (e.g. too few peaks): nothing to preserve
                try:
                    vb = np.asarray(getattr(back, name)(*args), dtype=float)
                except Exception as e:
                    self.fail(f"stat-{name}", f"{name} raises {type(e).__name__} after the round trip", sline, cv, inst)
                    continue
                if va.shape != vb.shape or not np.array_equal(va, vb, equal_nan=True):
                    self.fail(f"stat-{name}", f"{name} {vb.tolist()} after reading, {va.tolist()} before writing", sline, cv, inst)
            # derived columns of the file
            arr = np.loadtxt(self.fn, comments="#", delimiter=",")
            mc_file, sc_file = arr[:, -2], arr[:, -1]
            mc_obj, sc_obj = obj.mean_curve(inst.dist_a), obj.std_curve(inst.dist_a)
            if not np.array_equal(mc_file, mc_obj):
                self.fail("derived-mean", f"file mean-curve column {mc_file.tolist()} is not the written object's mean curve {np.asarray(mc_obj).tolist()}", sline, cv, inst)
            if not np.array_equal(sc_file, sc_obj):
                self.fail("derived-std", f"file std column {sc_file.tolist()} is not the written object's std curve {np.asarray(sc_obj).tolist()}", sline, cv, inst)
            st = sline["az"][0] if self.na == 1 else sline["w"]
            exp_mc = np.array([inst.a_mean(rat(m)) for m in st["mc"]])
            exp_sc = np.array([inst.a_std(rat(v)) for v in st["vc"]])
            if not np.all(np.abs(mc_file - exp_mc) <= RTOL * np.abs(exp_mc) + 1e-12):
                self.fail("derived-mean-exact", f"file mean-curve column {mc_file.tolist()} differs from the exact mean curve {exp_mc.tolist()}", sline, cv, inst)
            if not np.all(np.abs(sc_file - exp_sc) <= RTOL * np.abs(exp_sc) + 1e-12):
                self.fail("derived-std-exact", f"file std column {sc_file.tolist()} differs from the exact std curve {exp_sc.tolist()}", sline, cv, inst)
            if self.n % 97 == 1 and len(self.run.samples) < 5:
                self.run.samples.append(dict(round_trip_of=dict(cv=cv, state=s, instance=inst.name(), azimuths=self.na)))


class StaleMetaHook:
    """After every real transition: if the container's recorded range differs from the range the peaks
    were computed with, the object is written and read back anyway (it is a reachable real state, even
    though it is not a state of the repaired model) and must come back with the same peaks."""

    def __init__(self, run, hvsrpy, wd):
        self.run, self.h, self.fn, self.n = run, hvsrpy, os.path.join(wd, "stale.csv"), 0

    def __call__(self, real, obj, t, p, cv):
        if p["m"] == p["r"]:
            return
        inst = real.inst
        self.n += 1
        with warnings.catch_warnings():
            warnings.simplefilter("ignore")
            try:
                self.h.write_hvsr_object_to_file(obj, self.fn, distribution_mc=inst.dist_a, distribution_fn=inst.dist_f)
                back = self.h.read_hvsr_object_from_file(self.fn)
            except Exception:
                return          # judged by the per-state hook
        after = real.project(back)
        if after["r"] != p["r"] or after["pk"] != p["pk"]:
            self.run.violation(f"roundtrip:range-lost-after-{t['a']['op']}",
                               f"after {t['a']} on cv={cv} from {t['s']} the object has range {p['r']} peaks {p['pk']} "
                               f"(container meta says {p['m']}); read back: range {after['r']} peaks {after['pk']}",
                               dict(kind="roundtrip-stale", cv=cv, s=t["s"], a=t["a"], inst=inst.name()))


def diffuse_field(run, hvsrpy, wd, rng):
    """HvsrDiffuseField: curve, range and peak survive the round trip after any range history."""
    fn = os.path.join(wd, "df.csv")
    n = 0
    for trial in range(60 if run.quick else 600):
        nf = rng.randint(5, 12)
        freq = np.cumsum(rng.uniform(0.1, 1.0, nf))
        amp = rng.uniform(0.5, 5.0, nf)
        d = hvsrpy.HvsrDiffuseField(freq, amp, meta={"processing_method": "diffuse_field"})
        for _ in range(rng.randint(0, 3)):
            lo = None if rng.rand() < 0.3 else float(rng.choice(freq)) * rng.choice([1.0, 0.9, 1.1])
            hi = None if rng.rand() < 0.3 else float(rng.choice(freq)) * rng.choice([1.0, 0.9, 1.1])
            d.update_peaks_bounded(search_range_in_hz=(lo, hi))
        hvsrpy.write_hvsr_object_to_file(d, fn)
        b = hvsrpy.read_hvsr_object_from_file(fn)
        n += 1
        same = (np.array_equal(b.frequency, d.frequency) and np.array_equal(b.amplitude, d.amplitude)
                and tuple(b._search_range_in_hz) == tuple(d._search_range_in_hz)
                and np.array_equal([b.peak_frequency, b.peak_amplitude], [d.peak_frequency, d.peak_amplitude], equal_nan=True))
        run.case(("df", trial) if d._search_range_in_hz != (None, None) else None)
        if not same:
            run.violation("roundtrip:diffuse_field", f"diffuse-field object differs after the round trip: range "
                          f"{d._search_range_in_hz}->{b._search_range_in_hz} peak {d.peak_frequency}->{b.peak_frequency}",
                          dict(kind="roundtrip-df", freq=freq.tolist(), amp=amp.tolist(), range=list(d._search_range_in_hz)))
    return n


def kwargs_roundtrip(run, hvsrpy, wd):
    """Objects whose peaks were picked with non-default find_peaks_kwargs (a one-sample spike and a broad lower bump:
    width=2 selects the bump) over the default, a half-open and a bounded range, with and without rejected windows:
    the read-back object has the same per-window peaks, masks, range and statistics."""
    f = np.geomspace(0.5, 20, 14)

    def rows(k):
        out = []
        for w in range(4):
            a = np.ones(14)
            a[2 + ((w + k) % 2)] = 6.0 + w
            a[7:12] = [2.0, 3.0, 3.5 + 0.1 * (w + k), 3.0, 2.0]
            out.append(a)
        return np.array(out)
    fn = os.path.join(wd, "kwargs.csv")
    # "same frequencies, curves ..." - bit for bit, whatever the size of the numbers: curves of the order 1e-3 (a floor of 0.003, values
    # that have no short decimal form), 1e-12 and 1e9, a frequency axis that starts at 0.003 Hz
    for kind in ("traditional", "azimuthal", "diffuse_field"):
        for scale, f_ in ((0.003, f), (1e-12 / 3.0, f), (1e9 / 7.0, f), (1.0, np.geomspace(0.003, 9.0, 14))):
            if kind == "traditional":
                obj = hvsrpy.HvsrTraditional(f_, rows(0) * scale, meta={"processing_method": "traditional"})
            elif kind == "azimuthal":
                mt = {"processing_method": "traditional"}
                obj = hvsrpy.HvsrAzimuthal([hvsrpy.HvsrTraditional(f_, rows(0) * scale, meta=dict(mt)), hvsrpy.HvsrTraditional(f_, rows(1) * scale, meta=dict(mt))],
                                           [0.0, 90.0], meta={"processing_method": "azimuthal"})
            else:
                obj = hvsrpy.HvsrDiffuseField(f_, rows(0)[0] * scale, meta={"processing_method": "diffuse_field"})
            rep = dict(kind="roundtrip-scale", obj=kind, scale=scale)
            try:
                with warnings.catch_warnings():
                    warnings.simplefilter("ignore")
                    if kind == "diffuse_field":
                        hvsrpy.write_hvsr_object_to_file(obj, fn)
                    else:
                        hvsrpy.write_hvsr_object_to_file(obj, fn, distribution_mc="lognormal", distribution_fn="lognormal")
                    back = hvsrpy.read_hvsr_object_from_file(fn)
            except Exception as e:
                run.violation(f"roundtrip:scale:exception:{kind}", f"{kind} with curves x {scale}: write/read raised {type(e).__name__}: {e}", rep)
                continue
            a_, b_ = ([obj], [back]) if kind != "azimuthal" else (obj.hvsrs, back.hvsrs)
            same = np.array_equal(np.asarray(obj.frequency), np.asarray(back.frequency)) and all(np.array_equal(x.amplitude, y.amplitude) for x, y in zip(a_, b_))
            if not same:
                nbad = sum(int(np.sum(np.asarray(x.amplitude) != np.asarray(y.amplitude))) for x, y in zip(a_, b_)) + int(np.sum(np.asarray(obj.frequency) != np.asarray(back.frequency)))
                run.violation(f"roundtrip:scale:{kind}", f"{kind} with curves x {scale:g}, frequencies from {f_[0]:g} Hz: {nbad} samples are not restored bit for bit", rep)
            run.case(("scale", kind, scale, float(f_[0])))
    n = 0
    for kind in ("traditional", "azimuthal"):
        for kwargs in (dict(width=2), dict(prominence=1.2), None):
            for rng_ in ((None, None), (None, 15.0), (0.8, 18.0)):
                for masks in ([True] * 4, [True, False, True, True]):
                    if kind == "traditional":
                        obj = hvsrpy.HvsrTraditional(f, rows(0), meta={"processing_method": "traditional"})
                        inner = [obj]
                    else:
                        mt = {"processing_method": "traditional"}
                        obj = hvsrpy.HvsrAzimuthal([hvsrpy.HvsrTraditional(f, rows(0), meta=dict(mt)), hvsrpy.HvsrTraditional(f, rows(1), meta=dict(mt))], [0.0, 90.0],
                                                   meta={"processing_method": "azimuthal"})
                        inner = obj.hvsrs
                    obj.update_peaks_bounded(search_range_in_hz=rng_, find_peaks_kwargs=kwargs)
                    inner[-1].valid_window_boolean_mask = np.array(masks) & np.asarray(inner[-1].valid_window_boolean_mask)
                    inner[-1].valid_peak_boolean_mask = np.array(masks) & np.asarray(inner[-1].valid_peak_boolean_mask)
                    label = f"{kind} find_peaks_kwargs={kwargs} range={rng_} masks={masks}"
                    rep = dict(kind="roundtrip-kwargs", obj=kind, kwargs=kwargs, range=rng_, masks=masks)
                    try:
                        with warnings.catch_warnings():
                            warnings.simplefilter("ignore")
                            hvsrpy.write_hvsr_object_to_file(obj, fn, distribution_mc="lognormal", distribution_fn="lognormal")
                            back = hvsrpy.read_hvsr_object_from_file(fn)
                    except Exception as e:
                        run.violation(f"roundtrip:kwargs:exception:{kind}", f"{label}: write/read raised {type(e).__name__}: {e}", rep)
                        continue
                    binner = [back] if kind == "traditional" else back.hvsrs
                    for k, (x, y) in enumerate(zip(inner, binner)):
                        if not (np.array_equal(x._main_peak_frq, y._main_peak_frq, equal_nan=True) and np.array_equal(x._main_peak_amp, y._main_peak_amp, equal_nan=True)):
                            run.violation(f"roundtrip:kwargs:peaks:{kind}", f"{label}: window peaks of azimuth {k} after reading {y._main_peak_frq.tolist()}, "
                                          f"before writing {x._main_peak_frq.tolist()}", rep)
                        if not (np.array_equal(x.valid_window_boolean_mask, y.valid_window_boolean_mask) and np.array_equal(x.valid_peak_boolean_mask, y.valid_peak_boolean_mask)):
                            run.violation(f"roundtrip:kwargs:masks:{kind}", f"{label}: masks of azimuth {k} differ after the round trip", rep)
                    for name in ("mean_fn_frequency", "std_fn_frequency", "mean_curve_peak"):
                        try:
                            va = np.asarray(getattr(obj, name)("lognormal"), dtype=float)
                        except Exception:
                            continue
                        try:
                            vb = np.asarray(getattr(back, name)("lognormal"), dtype=float)
                        except Exception as e:
                            vb = np.array([np.nan])
                        if va.shape != vb.shape or not np.array_equal(va, vb):
                            run.violation(f"roundtrip:kwargs:stat-{name}:{kind}", f"{label}: {name} {vb.tolist()} after reading, {va.tolist()} before writing", rep)
                    default = hvsrpy.HvsrTraditional(f, rows(0))
                    default.update_peaks_bounded(search_range_in_hz=rng_)
                    differs = not np.array_equal(default._main_peak_frq, inner[0]._main_peak_frq, equal_nan=True)
                    n += 1
                    run.case(("rt-kwargs", kind, json.dumps(kwargs), str(rng_), tuple(masks)) if differs else None)
    # diffuse-field results: one curve, its peak over the range / with the options it was searched with
    nd = 0
    for kwargs in (dict(width=2), None):
        for rng_ in ((None, None), (None, 15.0), (0.8, 18.0), (5.0, None)):
            obj = hvsrpy.HvsrDiffuseField(f, rows(0)[1], meta={"processing_method": "diffuse_field"})
            obj.update_peaks_bounded(search_range_in_hz=rng_, find_peaks_kwargs=kwargs)
            label = f"diffuse field find_peaks_kwargs={kwargs} range={rng_}"
            rep = dict(kind="roundtrip-kwargs", obj="diffuse_field", kwargs=kwargs, range=rng_)
            try:
                with warnings.catch_warnings():
                    warnings.simplefilter("ignore")
                    hvsrpy.write_hvsr_object_to_file(obj, fn)
                    back = hvsrpy.read_hvsr_object_from_file(fn)
            except Exception as e:
                run.violation("roundtrip:kwargs:exception:diffuse_field", f"{label}: write/read raised {type(e).__name__}: {e}", rep)
                continue
            same = (type(back) is type(obj) and np.array_equal(back.amplitude, obj.amplitude) and np.array_equal(back.frequency, obj.frequency)
                    and np.array_equal(np.atleast_1d(back.peak_frequency), np.atleast_1d(obj.peak_frequency), equal_nan=True)
                    and np.array_equal(np.atleast_1d(back.peak_amplitude), np.atleast_1d(obj.peak_amplitude), equal_nan=True)
                    and tuple(back._search_range_in_hz) == tuple(obj._search_range_in_hz)
                    and tuple(back.meta.get("search_range_in_hz")) == tuple(obj.meta.get("search_range_in_hz")))
            if not same:
                run.violation("roundtrip:kwargs:diffuse_field", f"{label}: read back peak {back.peak_frequency} over {back._search_range_in_hz} "
                              f"(meta {back.meta.get('search_range_in_hz')}), written peak {obj.peak_frequency} over {obj._search_range_in_hz}", rep)
            nd += 1
            run.case(("rt-diffuse", json.dumps(kwargs), str(rng_)))
    run.notes["kwargs_round_trips"] = n
    run.notes["diffuse_field_round_trips"] = nd


def main():
    run = Run("C12")
    hvsrpy = import_hvsrpy()
    quick = run.quick
    wd = workdir("C12")
    # design level: the range a reader sees is the range the peaks were computed with, in every reachable state
    for na, rng_, k in ((1, "Ranges6", None), (2, "Ranges6s", 9000 if quick else 900)):
        mc = hvsrobj.cfg_text(na, 3, 6, "Alpha6a", rng_, "NSetA", "MaxItsA", "InitSorted" if k is None else "InitEnv",
                              export=False, invariants=["MetaRangeCurrent", "PeaksCurrent"], props=["CurvesFixed"])
        res, _ = hvsrobj.export_graph(mc, f"C12-mc{na}", {"VERIF_K": k or 1, "VERIF_SEED": run.seed}, timeout=3000)
        run.add_tlc(res, f"HvsrObject NA={na}: MetaRangeCurrent (ReadBack(Write(o)) = o), PeaksCurrent, CurvesFixed")
    total = 0
    # (N, L): distribution_fn = normal, distribution_mc = lognormal - the two distributions of the writer differ
    for na, rng_, k, insts in ((1, "Ranges6", 30 if quick else 8, (("N", "N"), ("L", "L"), ("N", "L"))),
                               (2, "Ranges6s", 12000 if quick else 2500, (("N", "N"), ("L", "N")))):
        ex = hvsrobj.cfg_text(na, 3, 6, "Alpha6a", rng_, "NSetA", "MaxItsA", "InitEnv", export=True)
        res, graph = hvsrobj.export_graph(ex, f"C12-export{na}", {"VERIF_K": k, "VERIF_SEED": run.seed}, timeout=3000)
        run.add_tlc(res, f"HvsrObject NA={na} export")
        consts = (f"  NA = {na}\n  NW = 3\n  NF = 6\n  Alphabet <- Alpha6a\n  Ranges <- {rng_}\n  NSet <- NSetA\n"
                  f"  MaxIts <- MaxItsA\n  TdMasks <- AllMasks\n  InitSel <- InitAll\n  SThr <- SThrHalf\n")
        rp = hvsrobj.Replayer(run, hvsrpy, graph, ALPHA6[:6], na, 3, 6, consts, focus={"Init"})
        hook = RoundTripHook(run, hvsrpy, na, wd)
        thook = StaleMetaHook(run, hvsrpy, wd)
        for ii, (fenc, aenc) in enumerate(insts):
            # azimuth values that stress the header grammar: non-integers, float noise, the closing value 180
            az = None if na == 1 else ([22.5, 0.1 + 0.2], [0.0, 180.0])[ii % 2]
            rp.replay(hvsrobj.Instance(6, fenc, aenc, azimuths=az), state_hook=hook, trans_hook=thook)
        rp.validate_pending()
        run.notes[f"replay_NA{na}"] = rp.stats
        total += hook.n
    run.notes["round_trips"] = total
    run.notes["diffuse_field_round_trips"] = diffuse_field(run, hvsrpy, wd, np.random.RandomState(run.seed))
    kwargs_roundtrip(run, hvsrpy, wd)
    # ---- writing is read-only and reading yields an object of its own (spec/TraceResultHeap.tla)
    import resultheap
    resultheap.run_sessions(run, hvsrpy, "C12-result-heap", dict(new_trad=1, new_diffuse=1, assemble=2, update_range=3, reject=3, read_only=6, read=5),
                            dict(write=6, statistics=1), 12 if run.quick else 120, 16, "result-heap")
    return run.finish(
        rule="every state of the exported HvsrObject graphs (traditional and 2-azimuth objects, reached by replaying the "
             "TLC transitions on real objects) written to file and read back: curves bit for bit, masks, range, peaks, "
             "all statistics, derived columns; plus random diffuse-field objects; non-trivial = state-changing transition",
        exhaustive=False)


if __name__ == "__main__":
    sys.path.insert(0, __file__.rsplit("/", 1)[0])
    main_wrapper(main)
