"""C13 - time-domain rejection keeps exactly the windows that satisfy the criterion.

spec/TdReject.tla: windows as per-component sequences of STA chunk levels; the
property tier (keep iff every ratio STA/LTA of every examined component lies
inside the limits, ties either way; maximum value below the threshold), the
implementation tier (component loop with early exit), TLC checks I => P,
conjunction over components, monotonicity in the limits, per-window decisions.
Every TLC case is realised as real SeismicRecording3C windows (+-level square
waves on dt = 0.25 s so every chunk mean is exact) and pushed through
sta_lta_window_rejection / maximum_value_window_rejection with and without an
attached traditional / azimuthal result: identity and order of the returned
objects, both masks on every azimuth.  Metamorphic replays: common rescaling
by powers of two, a window judged alone.  The HvsrObject state machine
(TdReject action, TdStep property) binds the mask semantics to histories.
"""
import sys

import numpy as np

from vcommon import Run, tlc, require_tlc_ok, import_hvsrpy, main_wrapper
import hvsrobj
from check_C05 import ALPHA6

PATS = [[1, 1, 1, 1], [1, 1, 1, 8], [4, 4, 1, 4], [1, 3, 2, 2], [2, 2, 4, 1]]
PATS_MIXED = [[1, 1, 1, 1], [1, 1, 1, 8], [1, 1, 1, 1, 1, 1, 1, 8], [1, 1, 1, 1, 4, 4, 1, 4], [2, 2, 2, 2, 2, 2, 2, 2]]
DT, STA, LTA, NCH = 0.25, 2.0, 4.0, 8


def series(levels, scale=1.0):
    out = []
    for lv in levels:
        out.extend([lv * scale, -lv * scale] * (NCH // 2))
    return np.array(out, dtype=float)


def main():
    run = Run("C13")
    h = import_hvsrpy()
    quick = run.quick
    cfg = "TdReject_quick" if quick else "TdReject_thorough"
    pats = [PATS[0], PATS[1], PATS[2], PATS[4]] if quick else PATS
    res = tlc("TdRejectMC", cfg, timeout=3000, heap="12g")
    require_tlc_ok(res, cfg)
    run.add_tlc(res, f"{cfg}: Refines, Conjunction, ConjunctionI, Monotone, PerWindow on every case")
    cases = [c for c in res.cases if isinstance(c, dict) and "pat" in c]
    nwin = len(cases[0]["pat"])
    rng = np.random.RandomState(run.seed)

    rec_cache = {}

    def record(pos, triple, scale=1.0, pats_=None):
        pats_ = pats if pats_ is None else pats_
        key = (pos, tuple(triple), scale, id(pats_))
        if key not in rec_cache:
            ts = [h.TimeSeries(series(pats_[p - 1], scale), DT) for p in triple]
            rec_cache[key] = h.SeismicRecording3C(ts[0], ts[1], ts[2])
        return rec_cache[key]

    freq = np.arange(1, 7, dtype=float)
    curves = np.array([[1, 3, 1, 1, 1, 1], [1, 1, 2, 1, 1, 1], [1, 1, 1, 4, 1, 1]], dtype=float)[:nwin]
    trad = h.HvsrTraditional(freq, curves)
    azi = h.HvsrAzimuthal([h.HvsrTraditional(freq, curves), h.HvsrTraditional(freq, curves[::-1])], [0.0, 90.0])

    def masks_ok(obj, sel):
        inner = [obj] if isinstance(obj, h.HvsrTraditional) else obj.hvsrs
        want = [(w + 1) in sel for w in range(nwin)]
        return all(list(map(bool, i.valid_window_boolean_mask)) == want and list(map(bool, i.valid_peak_boolean_mask)) == want
                   for i in inner)

    cur = {"pats": pats}

    def judge(fn_name, recs, got, allowed, case, obj, extra=""):
        ids = [id(r) for r in recs]
        try:
            sel = [ids.index(id(g)) + 1 for g in got]
        except ValueError:
            run.violation(f"{fn_name}:identity", f"{fn_name} returned an object that is not one of the windows passed in; case={case}",
                          dict(kind="td", fn=fn_name, case=case))
            return None
        if sel != sorted(sel) or len(set(sel)) != len(sel):
            run.violation(f"{fn_name}:order", f"{fn_name} returned windows {sel} out of order / duplicated; case={case}",
                          dict(kind="td", fn=fn_name, case=case))
        if sorted(sel) not in allowed:
            run.violation(f"{fn_name}:selection", f"{fn_name}{extra} kept windows {sel}, property allows {allowed}; patterns="
                          f"{[[cur['pats'][p-1] for p in w] for w in case['pat']]} comps={case['comps']} lim={case['lim']} thr={case['thr']}",
                          dict(kind="td", fn=fn_name, case=case))
        if obj is not None and not masks_ok(obj, sel):
            run.violation(f"{fn_name}:masks", f"{fn_name}: masks of the attached {type(obj).__name__} differ from the selection {sel}; case={case}",
                          dict(kind="td", fn=fn_name, case=case))
        return sel

    def process_cases(cases, pats, tag, LTA=LTA):
        cur["pats"] = pats
        order = rng.permutation(len(cases))
        for n_, ci in enumerate(order):
            case = cases[ci]
            recs = [record(w, case["pat"][w], pats_=pats) for w in range(nwin)]
            comps = tuple(case["comps"])
            lo, hi = case["lim"][0][0] / case["lim"][0][1], case["lim"][1][0] / case["lim"][1][1]
            thr, normed = case["thr"][0][0] / case["thr"][0][1], case["thr"][1]
            obj = (None, trad, azi)[n_ % 3]
            got = h.sta_lta_window_rejection(recs, sta_seconds=STA, lta_seconds=LTA, min_sta_lta_ratio=lo,
                                             max_sta_lta_ratio=hi, components=comps, hvsr=obj)
            sel = judge("sta_lta_window_rejection", recs, got, case["psel"], case, obj)
            if sel is not None and sorted(sel) != sorted(case["sel"]):
                run.drift += 1
            obj2 = (trad, azi, None)[n_ % 3]
            got = h.maximum_value_window_rejection(recs, maximum_value_threshold=thr, normalized=normed, components=comps, hvsr=obj2)
            judge("maximum_value_window_rejection", recs, got, case["pmsel"], case, obj2)
            nt = (ci,) if 0 < len(case["sel"]) < nwin or 0 < len(case["msel"]) < nwin else None
            run.case(nt, sample=dict(patterns=[[pats[p - 1] for p in w] for w in case["pat"]], components=case["comps"],
                                     limits=[lo, hi], kept=case["sel"], max_value=[thr, normed], max_kept=case["msel"])
                     if nt and len(run.samples) < 4 else None)
            # metamorphic replays on a sample
            if n_ % 16 == 0:
                # 2^-30 ~ 9e-10 (ambient noise in m/s), 2^30 ~ 1e9 (raw counts); 49/8 and 41/4 are exact in binary, every level stays an
                # exact float, and the loudest sample becomes 49 resp. 41 - values for which x * (1/x) is not 1 in binary
                for k, sc in ((-3, 2.0 ** -3), (5, 2.0 ** 5), (-30, 2.0 ** -30), (30, 2.0 ** 30), ("49/8", 6.125), ("41/4", 10.25)):
                    recs2 = [record(w, case["pat"][w], sc, pats_=pats) for w in range(nwin)]
                    got2 = h.sta_lta_window_rejection(recs2, sta_seconds=STA, lta_seconds=LTA, min_sta_lta_ratio=lo,
                                                      max_sta_lta_ratio=hi, components=comps)
                    judge("sta_lta_window_rejection", recs2, got2, case["psel"], case, None, extra=f"[amplitudes x{sc}]")
                    if normed:
                        got2 = h.maximum_value_window_rejection(recs2, maximum_value_threshold=thr, normalized=True, components=comps)
                        judge("maximum_value_window_rejection", recs2, got2, case["pmsel"], case, None, extra=f"[amplitudes x{sc}]")
                # each window alone: the STA/LTA decision depends on that window only
                for w in range(nwin):
                    alone = h.sta_lta_window_rejection([recs[w]], sta_seconds=STA, lta_seconds=LTA, min_sta_lta_ratio=lo,
                                                       max_sta_lta_ratio=hi, components=comps)
                    kept_alone = len(alone) == 1
                    must = all((w + 1) in s for s in case["psel"])
                    may = any((w + 1) in s for s in case["psel"])
                    if (kept_alone and not may) or (not kept_alone and must):
                        run.violation("sta_lta_window_rejection:alone", f"window {w+1} judged alone: kept={kept_alone}, jointly allowed {case['psel']}; case={case}",
                                      dict(kind="td", fn="alone", case=case))
            if n_ % 5000 == 0:
                # inputs are never modified
                for w in range(nwin):
                    for ci_, comp in enumerate(("ns", "ew", "vt")):
                        if not np.array_equal(getattr(recs[w], comp).amplitude, series(pats[case["pat"][w][ci_] - 1])):
                            run.violation("td:input-mutated", "rejection modified the samples of a window", dict(kind="td", case=case))

        return order

    order = process_cases(cases, pats, "")
    # lists in which the windows have different durations (4 and 8 chunks), straight from the specification
    resm = tlc("TdRejectMC", "TdReject_mixed", timeout=1200, heap="8g")
    require_tlc_ok(resm, "TdReject_mixed")
    run.add_tlc(resm, "TdReject_mixed: windows of two durations in one list (Refines, Conjunction, Monotone, PerWindow)")
    cases_m = [c for c in resm.cases if isinstance(c, dict) and "pat" in c]
    if quick:
        cases_m = [cases_m[i] for i in sorted(rng.choice(len(cases_m), min(len(cases_m), 3000), replace=False).tolist())]
    run.notes["mixed_duration_cases"] = sum(1 for c in cases_m if len({len(PATS_MIXED[w[0] - 1]) for w in c["pat"]}) > 1)
    process_cases(cases_m, PATS_MIXED, "mixed")
    # a long-term window that is not a whole number of short-term windows: lta = 2.5 x sta (the LTA ends inside the third chunk)
    resh = tlc("TdRejectMC", "TdReject_ltahalf", timeout=3000, heap="12g")
    require_tlc_ok(resh, "TdReject_ltahalf")
    run.add_tlc(resh, "TdReject_ltahalf: LTA over 2.5 chunks (Refines, Conjunction, Monotone, PerWindow)")
    cases_h = [c for c in resh.cases if isinstance(c, dict) and "pat" in c]
    cases_h = [cases_h[i] for i in sorted(rng.choice(len(cases_h), min(len(cases_h), 6000 if quick else 60000), replace=False).tolist())]
    # (TdReject_ltahalf.cfg uses the four patterns of Pats4 in both tiers)
    process_cases(cases_h, [PATS[0], PATS[1], PATS[2], PATS[4]], "ltahalf", LTA=2.5 * STA)
    # ---- windows of different durations in one call (PerWindow: the decision on a window depends on that window only) ----
    #      a long window = two patterns back to back; every window's joint verdict must equal its verdict alone
    mixed = 0
    for n_, ci in enumerate(order[:400 if quick else 4000]):
        case = cases[ci]
        comps = tuple(case["comps"])
        lo, hi = case["lim"][0][0] / case["lim"][0][1], case["lim"][1][0] / case["lim"][1][1]
        short = [record(w, case["pat"][w]) for w in range(nwin)]
        tsl = [h.TimeSeries(np.concatenate([series(pats[case["pat"][0][c] - 1]), series(pats[case["pat"][nwin - 1][c] - 1])]), DT) for c in range(3)]
        long_rec = h.SeismicRecording3C(tsl[0], tsl[1], tsl[2])
        for lst in (short + [long_rec], [long_rec] + short, short[:1] + [long_rec] + short[1:]):
            try:
                joint = h.sta_lta_window_rejection(lst, sta_seconds=STA, lta_seconds=LTA, min_sta_lta_ratio=lo, max_sta_lta_ratio=hi, components=comps)
            except Exception as e:
                run.violation("sta_lta_window_rejection:mixed-durations:raised", f"windows of {[r.ns.n_samples for r in lst]} samples in one call raised "
                              f"{type(e).__name__}: {e}", dict(kind="td-mixed", case=case))
                continue
            kept_joint = [any(g is r for g in joint) for r in lst]
            kept_alone = [len(h.sta_lta_window_rejection([r], sta_seconds=STA, lta_seconds=LTA, min_sta_lta_ratio=lo, max_sta_lta_ratio=hi, components=comps)) == 1 for r in lst]
            if kept_joint != kept_alone:
                run.violation("sta_lta_window_rejection:mixed-durations", f"windows of {[r.ns.n_samples for r in lst]} samples judged together: kept {kept_joint}, "
                              f"each judged alone: {kept_alone}; comps={case['comps']} lim={case['lim']}", dict(kind="td-mixed", case=case))
            mixed += 1
    run.notes["mixed_duration_lists"] = mixed
    # ---- the verdict is a function of the CURRENT samples: the same record objects judged, modified in place (all components
    #      doubled / one window multiplied by 8), and judged again - against fresh records with the same samples
    for n_, ci in enumerate(order[:200 if quick else 2000]):
        case = cases[ci]
        comps = tuple(case["comps"])
        lo, hi = case["lim"][0][0] / case["lim"][0][1], case["lim"][1][0] / case["lim"][1][1]
        thr, normed = case["thr"][0][0] / case["thr"][0][1], case["thr"][1]
        mk = lambda f_: [h.SeismicRecording3C(*[h.TimeSeries(series(pats[p - 1], f_[w]), DT) for p in case["pat"][w]]) for w in range(nwin)]
        recs = mk([1.0] * nwin)
        for fn_, kwargs in (("maximum_value_window_rejection", dict(maximum_value_threshold=thr, normalized=normed, components=comps)),
                            ("sta_lta_window_rejection", dict(sta_seconds=STA, lta_seconds=LTA, min_sta_lta_ratio=lo, max_sta_lta_ratio=hi, components=comps))):
            getattr(h, fn_)(recs, **kwargs)
            fac = [8.0 if w == 0 else 1.0 for w in range(nwin)]
            for w, r in enumerate(recs):
                for c in ("ns", "ew", "vt"):
                    getattr(r, c).amplitude *= fac[w]
            again = getattr(h, fn_)(recs, **kwargs)
            fresh = mk(fac)
            want = getattr(h, fn_)(fresh, **kwargs)
            k_again = [any(g is r for g in again) for r in recs]
            k_want = [any(g is r for g in want) for r in fresh]
            if k_again != k_want:
                run.violation(f"{fn_}:after-in-place-change", f"{fn_}: windows judged, window 1 multiplied by 8 in place, judged again: kept {k_again}; fresh records "
                              f"with the same samples: {k_want}; case={case}", dict(kind="td-inplace", fn=fn_, case=case))
            for w, r in enumerate(recs):          # undo for the second function
                for c in ("ns", "ew", "vt"):
                    getattr(r, c).amplitude /= fac[w]

    # ---- histories: the TdReject action of the HvsrObject state machine on real objects ----------
    for na, rng_, k in ((1, "Ranges6", 40 if quick else 8), (2, "Ranges6s", 15000 if quick else 3000)):
        ex = hvsrobj.cfg_text(na, 3, 6, "Alpha6a", rng_, "NSetA", "MaxItsA", "InitEnv", export=True, props=["TdStep"])
        res, graph = hvsrobj.export_graph(ex, f"C13-export{na}", {"VERIF_K": k, "VERIF_SEED": run.seed}, timeout=3000)
        run.add_tlc(res, f"HvsrObject NA={na}: TdStep (both masks = selection on every azimuth) + export")
        consts = (f"  NA = {na}\n  NW = 3\n  NF = 6\n  Alphabet <- Alpha6a\n  Ranges <- {rng_}\n  NSet <- NSetA\n"
                  f"  MaxIts <- MaxItsA\n  TdMasks <- AllMasks\n  InitSel <- InitAll\n  SThr <- SThrHalf\n")
        rp = hvsrobj.Replayer(run, h, graph, ALPHA6[:6], na, 3, 6, consts, focus={"TdReject", "Init"})
        rp.replay(hvsrobj.Instance(6, "N", "N"), trans_filter=lambda a, t: a["op"] != "Fdwra")
        rp.validate_pending()
        run.notes[f"replay_NA{na}"] = rp.stats
    return run.finish(
        rule="every case of spec/TdReject.tla (2 windows x 3 components over 4-5 chunk patterns, 6 component subsets, 4 limit "
             "pairs / thresholds, ties included) realised as real windows and pushed through both rejection functions with and "
             "without attached results; rescaled and single-window replays; TdReject transitions of the HvsrObject graph; "
             "non-trivial = some but not all windows kept",
        exhaustive=True)


if __name__ == "__main__":
    sys.path.insert(0, __file__.rsplit("/", 1)[0])
    main_wrapper(main)
