"""C14 - spatial weights are nearest-sensor area fractions; Monte-Carlo fn uses them.

spec/Voronoi.tla: exact half-plane clipping (Sutherland-Hodgman over rationals)
of a convex boundary by the perpendicular bisectors, shoelace areas; TLC checks
non-negativity, sum to one, independence of sensor order, translation and
scaling on every lattice layout (square and pentagonal boundary, sensors inside,
on the edge and outside) and exports the exact weights.  Each layout goes
through HvsrSpatial.spatial_weights / bounded_voronoi, also permuted, translated
(up to 1e4 x extent) and scaled.
spec/McStats.tla: weighted mean / variance of scripted realisations (integer
values mu_i + sd_i z_j); TLC checks weight-scale invariance, the zero-std closed
form and bounds, and exports exact values; montecarlo_fn is driven with a
scripted random generator returning exactly those realisations (all four
distribution pairs), and with real seeded generators for reproducibility.
"""
import math
import sys
import warnings

import numpy as np

from vcommon import Run, tlc, require_tlc_ok, import_hvsrpy, main_wrapper

SQUARE = [(0, 0), (4, 0), (4, 4), (0, 4)]
PENTA = [(0, 0), (5, 0), (6, 3), (3, 6), (0, 4)]


class Scripted:
    """A random generator whose stream of standard normal deviates is the integer pattern z, over and over: .normal(loc, scale, size)
    returns loc + scale * (the next deviates of the stream), filled in C order like numpy does - so one draw of n values per generator
    and a single broadcast draw of (generators x n) values see the same numbers."""

    def __init__(self, z):
        self.z = np.array(z, dtype=float)
        self.pos = 0

    def _take(self, count):
        idx = (self.pos + np.arange(count)) % len(self.z)
        self.pos += count
        return self.z[idx]

    def normal(self, loc=0.0, scale=1.0, size=None):
        shape = np.broadcast(np.asarray(loc), np.asarray(scale)).shape if size is None else (tuple(size) if np.ndim(size) else (int(size),))
        shape = np.broadcast_shapes(shape, np.shape(loc), np.shape(scale))
        dev = self._take(int(np.prod(shape, dtype=int))).reshape(shape)
        return loc + scale * dev

    def standard_normal(self, size=None):
        return self.normal(0.0, 1.0, size)


def collinear(pts):
    if len(pts) < 3:
        return True
    (x0, y0), (x1, y1) = pts[0], pts[1]
    return all((x1 - x0) * (p[1] - y0) - (y1 - y0) * (p[0] - x0) == 0 for p in pts[2:])


def main():
    run = Run("C14")
    h = import_hvsrpy()
    from hvsrpy.hvsr_spatial import HvsrSpatial, montecarlo_fn
    rng = np.random.RandomState(run.seed + 14)
    plans = [("Voronoi_quick", SQUARE), ("Voronoi_mix", SQUARE)] + ([] if run.quick else [("Voronoi_penta", PENTA)])
    for cfg, boundary in plans:
        res = tlc("Voronoi", cfg, timeout=6000, heap="8g")
        require_tlc_ok(res, cfg)
        run.add_tlc(res, f"{cfg}: NonNegative SumToOne OrderInvariant TranslationInvariant ScaleInvariant")
        cases = [c for c in res.cases if isinstance(c, dict) and "sens" in c]
        if not run.quick and len(cases) > 3000:
            cases = [cases[i] for i in sorted(rng.choice(len(cases), 3000, replace=False).tolist())]
        b = np.array(boundary, dtype=float)
        for ci, c in enumerate(cases):
            sens = [tuple(p) for p in c["sens"]]
            kept = c["kept"]
            w = np.array([x[0] / x[1] for x in c["w"]])
            keptpts = [sens[i - 1] for i in kept]
            if len(kept) < 4:
                run.inconclusive += 1        # the property speaks about at least four sensors inside the boundary
                continue
            if collinear(keptpts):
                run.inconclusive += 1
                continue
            rep = dict(kind="voronoi", case=c, boundary=boundary)
            variants = [("as given", np.array(sens, dtype=float), b, list(range(len(sens))), 1e-9)]
            if ci % 2 == 0:
                perm = rng.permutation(len(sens))
                variants.append(("permuted", np.array(sens, dtype=float)[perm], b, perm.tolist(), 1e-9))
            if ci % 3 == 0:
                e_ = 1 + (ci // 3) % 4          # both coordinates far from the origin (up to 1e4 x the array extent), or only one
                sh = np.array([rng.choice([-1, 1]) * 10.0 ** e_ * 8, 123.0 if ci % 6 else rng.choice([-1, 1]) * 10.0 ** e_ * 8])
                variants.append((f"translated by {sh.tolist()}", np.array(sens, dtype=float) + sh, b + sh, list(range(len(sens))), 1e-6))
                k = float(rng.choice([1e-3, 37.0, 1e3]))
                variants.append((f"scaled by {k}", np.array(sens, dtype=float) * k, b * k, list(range(len(sens))), 1e-9))
            if ci % 4 == 1:
                # the boundary is the CONVEX HULL of the points given: a point slightly inside the hull, listed between its
                # neighbours (a valid non-convex ring), or the points in another order, describe the same region
                c0 = b.mean(axis=0)
                mid = (b[0] + b[1]) / 2.0
                dent = mid + 0.06 * (c0 - mid)
                variants.append(("boundary with a point inside its hull", np.array(sens, dtype=float), np.vstack([b[:1], dent[None, :], b[1:]]), list(range(len(sens))), 1e-9))
                variants.append(("boundary points reordered", np.array(sens, dtype=float), b[rng.permutation(len(b))], list(range(len(sens))), 1e-9))
            for label, coords, bnd, order, tol in variants:
                try:
                    with warnings.catch_warnings():
                        warnings.simplefilter("ignore")
                        sp = HvsrSpatial(coords)
                        gw, gi = sp.spatial_weights(bnd)
                        verts, gi2 = sp.bounded_voronoi(bnd)
                except Exception as e:
                    run.violation("voronoi:raised", f"sensors {sens} boundary {boundary} ({label}): {type(e).__name__}: {e}", rep)
                    continue
                want_idx = sorted(order.index(i - 1) for i in kept)           # positions of the kept sensors in the order given
                exp_by_pos = {order.index(i - 1): w[k] for k, i in enumerate(kept)}
                if sorted(gi) != want_idx or list(gi2) != list(gi):
                    # a sensor exactly ON the boundary is neither "inside" nor "outside" it: the statement does not say whether it is retained
                    # (today it is dropped).  If the retained set differs from the strictly-inside one by such sensors only, the weights are
                    # judged against the definition for THAT retained set (the hull clipped by the bisectors of the retained sensors)
                    from scipy.spatial import ConvexHull
                    hull_ = np.asarray(bnd, dtype=float)[ConvexHull(np.asarray(bnd, dtype=float)).vertices]
                    def on_edge(pt):
                        for a_, b_ in zip(hull_, np.roll(hull_, -1, axis=0)):
                            cr = (b_[0] - a_[0]) * (pt[1] - a_[1]) - (b_[1] - a_[1]) * (pt[0] - a_[0])
                            if abs(cr) <= 1e-9 * max(1.0, np.abs(hull_).max()) ** 2 and min(a_[0], b_[0]) - 1e-9 <= pt[0] <= max(a_[0], b_[0]) + 1e-9 \
                                    and min(a_[1], b_[1]) - 1e-9 <= pt[1] <= max(a_[1], b_[1]) + 1e-9:
                                return True
                        return False
                    extra = sorted(set(int(i) for i in gi) - set(want_idx))
                    if list(gi2) == list(gi) and set(want_idx) <= set(int(i) for i in gi) and extra and all(on_edge(np.asarray(coords, dtype=float)[i]) for i in extra):
                        kept_coords = np.asarray(coords, dtype=float)[list(gi)]
                        want_alt = nearest_sensor_fractions(kept_coords, hull_)
                        if np.allclose(gw, want_alt, rtol=1e-7, atol=1e-9):
                            run.ties += 1
                        else:
                            run.violation("voronoi:weights", f"sensors {sens} ({label}): sensors {extra} on the boundary are retained; weights {np.asarray(gw).tolist()} are not the "
                                          f"nearest-sensor area fractions {want_alt.tolist()} of the retained set", rep)
                        continue
                    run.violation("voronoi:indices", f"sensors {sens} ({label}): retained indices {list(gi)}, expected {want_idx}", rep)
                    continue
                exp = np.array([exp_by_pos[i] for i in gi])
                if not np.allclose(gw, exp, rtol=tol, atol=tol):
                    run.violation("voronoi:weights", f"sensors {sens} boundary {boundary} ({label}): weights {np.asarray(gw).tolist()} for indices {list(gi)}, "
                                  f"exact area fractions {exp.tolist()}", rep)
                # bounded_voronoi: the cell polygons have the same areas
                tot = polygon_area(b + (bnd[0] - b[0]) if len(bnd) == len(b) and "reordered" not in label else b) if "scaled" not in label else polygon_area(bnd)
                areas = np.array([polygon_area(v) for v in verts]) / tot
                if not np.allclose(areas, exp, rtol=tol, atol=tol):
                    run.violation("voronoi:cells", f"sensors {sens} ({label}): cell areas of bounded_voronoi {areas.tolist()} differ from {exp.tolist()}", rep)
            run.case((cfg, tuple(sens)) if len(set(np.round(w, 12))) > 1 else None,
                     sample=dict(sensors=sens, boundary=boundary, kept_indices=kept, exact_weights=c["w"]) if len(run.samples) < 2 and len(kept) < len(sens) else None)

    # ---- Monte Carlo ---------------------------------------------------------------------------------
    for cfg in (["McStats"] if run.quick else ["McStats", "McStats3"]):
        res = tlc("McStats", cfg, timeout=3000, heap="8g")
        require_tlc_ok(res, cfg)
        run.add_tlc(res, f"{cfg}: WeightScaleInvariant ZeroStdClosedForm MeanBetween VarNonNegative")
        cases = [c for c in res.cases if isinstance(c, dict) and "mu" in c]
        if not run.quick and len(cases) > 20000:
            cases = [cases[i] for i in sorted(rng.choice(len(cases), 20000, replace=False).tolist())]
        q = 8.0
        for ci, c in enumerate(cases):
            mu, sd, w, z = c["mu"], c["sd"], c["w"], c["z"]
            m, v = c["mean"][0] / c["mean"][1], c["var"][0] / c["var"][1]
            rep = dict(kind="mc", case=c)
            n = len(z)
            wf = np.array(w, dtype=float) * float(rng.choice([1.0, 0.25, 10.0]))
            # normal / normal: the realisations are the integers themselves
            fm, fs, real = montecarlo_fn(np.array(mu, float), np.array(sd, float), wf, "normal", "normal", n_realizations=n, rng=Scripted(z))
            exp_real = np.array([[mu[i] + sd[i] * zz for zz in z] for i in range(len(mu))], dtype=float)
            if not np.array_equal(real, exp_real):
                run.violation("mc:realizations", f"normal/normal: realisations {real.tolist()} differ from the generator's {exp_real.tolist()}", rep)
            if not (abs(fm - m) <= 1e-9 * abs(m) + 1e-12 and abs(fs - math.sqrt(v)) <= 1e-9 * math.sqrt(v) + 1e-12):
                run.violation("mc:normal-normal", f"mu={mu} sd={sd} w={wf.tolist()} z={z}: mean/std {fm}/{fs}, exact {m}/{math.sqrt(v)}", rep)
            # lognormal / lognormal: the same numbers are exponents (values e^(v/q))
            fm, fs, real = montecarlo_fn(np.array(mu, float) / q, np.array(sd, float) / q, wf, "lognormal", "lognormal", n_realizations=n, rng=Scripted(z))
            if not (abs(fm - math.exp(m / q)) <= 1e-9 * math.exp(m / q) and abs(fs - math.sqrt(v) / q) <= 1e-9 * math.sqrt(v) / q + 1e-12
                    and np.allclose(real, np.exp(exp_real / q), rtol=1e-12)):
                run.violation("mc:lognormal-lognormal", f"mu={mu} sd={sd} w={wf.tolist()} z={z} (exponents /{q}): median/log-std {fm}/{fs}, "
                              f"exact {math.exp(m/q)}/{math.sqrt(v)/q}", rep)
            # mixed pairs: the statistics are those of the transformed realisations (same estimator, evaluated in floating point)
            if ci % 4 == 0:
                for dg, dsp, tr in (("lognormal", "normal", np.exp(exp_real / q)), ("normal", "lognormal", None)):
                    if dg == "normal":
                        pos = exp_real + 10.0          # keep the realisations positive before the logarithm
                        fm, fs, real = montecarlo_fn(np.array(mu, float) + 10.0, np.array(sd, float), wf, dg, dsp, n_realizations=n, rng=Scripted(z))
                        vals = np.log(pos)
                    else:
                        fm, fs, real = montecarlo_fn(np.array(mu, float) / q, np.array(sd, float) / q, wf, dg, dsp, n_realizations=n, rng=Scripted(z))
                        vals = tr
                    wn = wf / wf.sum()
                    em = float(np.sum(wn[:, None] * vals) / n)
                    ev = float(np.sum(wn[:, None] * (vals - em) ** 2) / n / (1 - np.sum(wn ** 2) / n))
                    em_out = math.exp(em) if dsp == "lognormal" else em
                    if not (abs(fm - em_out) <= 1e-9 * abs(em_out) and abs(fs - math.sqrt(ev)) <= 1e-9 * math.sqrt(ev) + 1e-12):
                        run.violation(f"mc:{dg}-{dsp}", f"mu={mu} sd={sd} w={wf.tolist()} z={z}: mean/std {fm}/{fs}, estimator gives {em_out}/{math.sqrt(ev)}", rep)
                    # the realisations handed back are the resonance frequencies that were drawn (in Hz), whatever space the statistics are taken in
                    want_real = pos if dg == "normal" else tr
                    if not np.allclose(real, want_real, rtol=1e-12):
                        run.violation(f"mc:{dg}-{dsp}:realizations", f"mu={mu} sd={sd} z={z}: the returned realisations {np.asarray(real).tolist()} are not the drawn "
                                      f"frequencies {np.asarray(want_real).tolist()}", rep)
            run.case((cfg, ci) if v > 0 and len(set(w)) > 1 else None,
                     sample=dict(means=mu, stds=sd, weights=w, z=z, exact_mean=c["mean"], exact_variance=c["var"]) if len(run.samples) < 4 and v > 0 and len(set(w)) > 1 else None)
    random_tight_layouts(run, rng, HvsrSpatial)
    # reproducibility with real generators, and unchanged when all weights are multiplied by a constant
    for t in range(10 if run.quick else 100):
        mus = rng.uniform(2.5, 4, 5)       # far enough from zero: realisations stay positive before a logarithm
        sds = rng.uniform(0.05, 0.4, 5)
        ws = rng.uniform(0.1, 1, 5)
        for dg in ("normal", "lognormal"):
            for dsp in ("normal", "lognormal"):
                seed = int(rng.randint(1 << 30))
                a = montecarlo_fn(mus, sds, ws, dg, dsp, n_realizations=50, rng=np.random.default_rng(seed))
                b = montecarlo_fn(mus, sds, ws, dg, dsp, n_realizations=50, rng=np.random.default_rng(seed))
                c2 = montecarlo_fn(mus, sds, ws * 8.0, dg, dsp, n_realizations=50, rng=np.random.default_rng(seed))
                if not (a[0] == b[0] and a[1] == b[1] and np.array_equal(a[2], b[2])):
                    run.violation("mc:not-reproducible", f"{dg}/{dsp} seed {seed}: two runs with the same generator state differ", dict(kind="mc-seed", seed=seed))
                if not (np.isclose(a[0], c2[0], rtol=1e-12) and np.isclose(a[1], c2[1], rtol=1e-12) and np.array_equal(a[2], c2[2])):
                    run.violation("mc:weight-scale", f"{dg}/{dsp} seed {seed}: multiplying all weights by 8 changes the statistics", dict(kind="mc-seed", seed=seed))
                # the statistics are those of the returned realisations, one ROW per sensor, weighted per sensor - for any number of
                # realisations: fewer than, as many as (a square array), and more than there are sensors
                for nr in (3, 5, 50):
                    fm_, fs_, real_ = montecarlo_fn(mus, sds, ws, dg, dsp, n_realizations=nr, rng=np.random.default_rng(seed + nr))
                    real_ = np.asarray(real_, dtype=float)
                    vals_ = np.log(real_) if dsp == "lognormal" else real_
                    wn_ = ws / ws.sum()
                    em_ = float(np.sum(wn_[:, None] * vals_) / nr)
                    ev_ = float(np.sum(wn_[:, None] * (vals_ - em_) ** 2) / nr / (1 - np.sum(wn_ ** 2) / nr))
                    em_out = math.exp(em_) if dsp == "lognormal" else em_
                    if real_.shape != (5, nr) or not (abs(fm_ - em_out) <= 1e-9 * abs(em_out) and abs(fs_ - math.sqrt(ev_)) <= 1e-9 * math.sqrt(ev_) + 1e-12):
                        run.violation("mc:statistics-of-realizations", f"{dg}/{dsp}, 5 sensors x {nr} realisations: mean/std {fm_}/{fs_}, the weighted estimator over the returned "
                                      f"realisations gives {em_out}/{math.sqrt(ev_)}", dict(kind="mc-seed", seed=seed, nr=nr))
        run.case(("seeded", t))
    return run.finish(
        rule="every lattice layout of spec/Voronoi.tla (4 of 9 interior points; 5 of 12 incl. edge/outside points; thorough: pentagon) "
             "through spatial_weights and bounded_voronoi, also permuted / translated / scaled; every scripted Monte-Carlo case of "
             "spec/McStats.tla under 2 (+2 mixed) distribution pairs; seeded reproducibility; non-trivial = unequal weights",
        exhaustive=run.quick)


def clip_halfplane(poly, a, b_):
    """Sutherland-Hodgman: the part of the convex polygon `poly` (k x 2) with a . x <= b_"""
    out = []
    k = len(poly)
    for i in range(k):
        p, q = poly[i], poly[(i + 1) % k]
        dp, dq = a @ p - b_, a @ q - b_
        if dp <= 0:
            out.append(p)
        if (dp < 0 < dq) or (dq < 0 < dp):
            t = dp / (dp - dq)
            out.append(p + t * (q - p))
    return np.array(out) if out else np.zeros((0, 2))


def nearest_sensor_fractions(sensors, hull):
    """area of {x in hull : sensor i is the nearest sensor} / area of hull, by clipping the hull with every bisector"""
    tot = polygon_area(hull)
    out = []
    for i, si in enumerate(sensors):
        cell = hull.copy()
        for j, sj in enumerate(sensors):
            if j != i and len(cell):
                cell = clip_halfplane(cell, 2.0 * (sj - si), float(sj @ sj - si @ si))          # |x - si|^2 <= |x - sj|^2
        out.append(polygon_area(cell) / tot if len(cell) >= 3 else 0.0)
    return np.array(out)


def random_tight_layouts(run, rng, HvsrSpatial):
    """The definition itself on layouts the exact model is too small for: 7-10 sensors in general position, a boundary that hugs them
    (their convex hull blown up by 5-25 %, so that several interior cells reach over it with a single corner)."""
    from scipy.spatial import ConvexHull
    for t in range(40 if run.quick else 400):
        ns = int(rng.randint(7, 11))
        sens = rng.uniform(0.0, 10.0, size=(ns, 2))
        hull_pts = sens[ConvexHull(sens).vertices]
        c0 = hull_pts.mean(axis=0)
        bnd = c0 + (1.05 + 0.2 * rng.rand()) * (hull_pts - c0)
        want = nearest_sensor_fractions(sens, bnd)
        rep = dict(kind="voronoi-random", sensors=sens.tolist(), boundary=bnd.tolist())
        try:
            with warnings.catch_warnings():
                warnings.simplefilter("ignore")
                gw, gi = HvsrSpatial(sens).spatial_weights(bnd)
        except Exception as e:
            run.violation("voronoi:raised", f"random layout {t}: {type(e).__name__}: {e}", rep)
            continue
        if sorted(gi) != list(range(ns)) or not np.allclose(np.asarray(gw)[np.argsort(gi)], want, rtol=1e-7, atol=1e-9):
            run.violation("voronoi:weights:random-tight-boundary", f"random layout {t} ({ns} sensors, boundary = hull x {np.linalg.norm(bnd[0]-c0)/np.linalg.norm(hull_pts[0]-c0):.2f}): "
                          f"weights {np.asarray(gw).tolist()} for indices {list(gi)}, nearest-sensor area fractions {want.tolist()}", rep)
        run.case(("random-tight", t))


def polygon_area(v):
    v = np.asarray(v, dtype=float)
    x, y = v[:, 0], v[:, 1]
    return 0.5 * abs(np.dot(x, np.roll(y, -1)) - np.dot(y, np.roll(x, -1)))


if __name__ == "__main__":
    sys.path.insert(0, __file__.rsplit("/", 1)[0])
    main_wrapper(main)
