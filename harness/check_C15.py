"""C15 - settings round-trip through files and are independent of one another.

spec/Heap.tla + TraceSettingsHeap.tla: every settings object is a vector of
(storage, content) slots; the specification states for construct / in-place
mutation / assignment / save / load (direct and type-dispatching) / process
which objects may change, that new objects share no storage with existing
settings objects (pristine default instances of every class are kept alive from
the start, so "the defaults of objects created later" are observable), that
passed arguments and reloaded attributes arrive equal in content, that the class
survives the dispatching reader and that processing with reloaded settings is
identical.  Seeded random histories over the eight classes are recorded from the
real API and every step is validated by TLC.
"""
import copy
import json
import os
import sys
import warnings

import numpy as np

from vcommon import Run, import_hvsrpy, main_wrapper, workdir
import heaplog
from heaplog import World

CLASSES = ["HvsrPreProcessingSettings", "PsdPreProcessingSettings", "PsdProcessingSettings",
           "HvsrTraditionalProcessingSettings", "HvsrTraditionalSingleAzimuthProcessingSettings",
           "HvsrTraditionalRotDppProcessingSettings", "HvsrAzimuthalProcessingSettings",
           "HvsrDiffuseFieldProcessingSettings"]
MUTABLE_ARGS = {
    "filter_corner_frequencies_in_hz": lambda rng: [None, float(rng.choice([5.0, 12.5]))] if rng.rand() < 0.5 else [0.5, None],
    "window_type_and_width": lambda rng: ["tukey", float(rng.choice([0.05, 0.2, 0.5]))],
    "smoothing": lambda rng: dict(operator=str(rng.choice(["konno_and_ohmachi", "log_rectangular"])),
                                  bandwidth=float(rng.choice([40.0, 0.1])) if True else 0,
                                  center_frequencies_in_hz=np.geomspace(0.5, 20, int(rng.choice([8, 12])))),
    "fft_settings": lambda rng: [dict(norm="ortho"), dict(n=1024), dict(n=2048, norm="backward")][rng.randint(3)],
    # integer arrays (like the default), lists, and FRACTIONAL azimuths as array and as list
    "azimuths_in_degrees": lambda rng: [np.arange(0, 180, int(rng.choice([45, 60]))), [0.0, 30.0, 90.0], np.array([0.0, 22.5, 45.0, 67.5, 112.5]),
                                        [0.25, 30.5, 91.75],
                                        # the user's ORDER is content too (a list that starts mid-circle, one with a repeated azimuth)
                                        [60.0, 0.0, 120.0, 30.0], np.array([90.0, 30.0, 30.0, 150.0])][rng.randint(6)],
}


def set_slots(o):
    def fn():
        out = []
        for name in o.attrs:
            v = getattr(o, name)
            mutable = isinstance(v, (list, dict, np.ndarray))
            out.append((v if mutable else None, v, True))
            inner = None
            if isinstance(v, dict):
                for k, x in v.items():
                    if isinstance(x, (list, np.ndarray)):
                        inner = x
            out.append((inner, inner if inner is not None else 0, True))
        return out
    return fn


def file_slots(path):
    data = json.load(open(path))

    def fn(data=data):
        out = []
        for name, v in data.items():
            out.append((None, v, True))
            inner = None
            if isinstance(v, dict):
                for k, x in v.items():
                    if isinstance(x, list):
                        inner = x
            out.append((None, inner if inner is not None else 0, True))
        return out
    return fn


class Driver:
    _nsaves = 0

    def __init__(self, h, rng, wd, recs):
        self.h, self.rng, self.wd, self.recs = h, rng, wd, recs
        self.w = World()
        self.live, self.kind, self.saved_from = {}, {}, {}
        self.n = 0
        self.events = []
        self.failed = None
        self.snap_ids = {}

    def nid(self, p):
        self.n += 1
        return f"{p}{self.n}"

    def file_name(self, fid):
        """where the next save goes: three physical paths are used over and over (a settings file is edited and saved again
        under its name), handed to the library as an absolute str, a str relative to the working directory, or a pathlib.Path;
        the file object of the model that lived at that path before is gone (it can no longer be loaded)"""
        import pathlib
        k = Driver._nsaves                      # counted over all histories of the run: the paths outlive a history
        Driver._nsaves = k + 1
        phys = os.path.join(self.wd, f"slot{k % 3}.json")
        for old, path in list(getattr(self, "_at", {}).items()):
            if path == phys and self.kind.get(old) == "file":
                self.kind[old] = "file-overwritten"
        self.__dict__.setdefault("_at", {})[fid] = phys
        form = (k // 3) % 3
        return phys if form == 0 else os.path.relpath(phys) if form == 1 else pathlib.Path(phys)

    def log(self, op, roles, new, fn, **args):
        pre = self.w.snapshot()
        extra = {}
        try:
            extra = fn() or {}
        except Exception as e:
            self.failed = (op, roles, f"{type(e).__name__}: {e}")
            for i in new:
                self.w.remove(i); self.live.pop(i, None); self.kind.pop(i, None)
            new = []
        post = self.w.snapshot()
        self.events.append(dict(op=op, roles=roles, new=new, pre=pre, post=post, **args, **extra))

    def pristine(self):
        ids = []

        def f():
            for c in CLASSES:
                i = f"p_{c}"
                o = getattr(self.h, c)()
                self.live[i], self.kind[i] = o, "pristine"
                self.w.add(i, f"set:{c}", set_slots(o))
                ids.append(i)
        self.log("Pristine", {}, [f"p_{c}" for c in CLASSES], f)

    def proc_digest(self, o):
        """digest of the result of processing a small fixed recording set with settings o"""
        if not hasattr(o, "processing_method"):
            return "n/a"
        o = copy.deepcopy(o)
        recs = copy.deepcopy(self.recs)
        with warnings.catch_warnings():
            warnings.simplefilter("ignore")
            r = self.h.process(recs, o)
        if isinstance(r, dict):
            return heaplog.dg(np.concatenate([r[k].amplitude for k in ("ns", "ew", "vt")]))
        amp = r.amplitude if not isinstance(r.amplitude, list) else np.concatenate(r.amplitude)
        return heaplog.dg(np.asarray(amp))

    # ---- explicit steps for the scripted histories (same logging as the random driver) ----
    def construct(self, c, **argvals):
        cls = getattr(self.h, c)
        users = {}
        for p, val in argvals.items():
            u = self.nid("u")

            def fu(u=u, val=val, p=p):
                self.live[u], self.kind[u] = val, f"user:{p}"
                self.w.add(u, "user", lambda val=val: [(val, val, True)])
            self.log("User", {}, [u], fu)
            users[p] = u
        o = self.nid("s")

        def f():
            obj = cls(**{p: self.live[u] for p, u in users.items()})
            self.live[o], self.kind[o] = obj, "set"
            self.w.add(o, f"set:{c}", set_slots(obj))
        attrs = cls().attrs
        self.log("Construct", dict(o=o, pristine=f"p_{c}"), [o], f, args=[[2 * attrs.index(p) + 1, u] for p, u in users.items()])
        return o

    def save(self, o):
        obj = self.live[o]
        fid = self.nid("f")
        fn = self.file_name(fid)

        def f():
            obj.save(fn)
            self.live[fid], self.kind[fid] = fn, "file"
            self.saved_from[fid] = (o, copy.deepcopy(obj))
            self.w.add(fid, "file", file_slots(fn))
        self.log("Save", dict(o=o, f=fid), [fid], f)
        return fid

    def load_onto(self, o, fid):
        obj, snap = self.live[o], self.saved_from[fid][1]

        def f():
            obj.load(self.live[fid])
            return dict(procSame=bool(self.proc_digest(obj) == self.proc_digest(snap)))
        self.log("LoadOnto", dict(f=fid, o=o), [], f)

    def load(self, fid, how):
        h = self.h
        src, snap = self.saved_from[fid]
        d = self.nid("s")

        def f():
            if how == "dispatch":
                new = h.read_settings_object_from_file(self.live[fid])
            else:
                new = type(snap)()
                new.load(self.live[fid])
            self.live[d], self.kind[d] = new, "set"
            self.w.add(d, f"set:{type(new).__name__}", set_slots(new))
            return dict(procSame=bool(self.proc_digest(new) == self.proc_digest(snap)))
        srcid = self.snap_ids.get(fid)
        if srcid is None:
            srcid = self.snap_ids[fid] = self.nid("k")

            def fs():
                self.w.add(srcid, f"set:{type(snap).__name__}", set_slots(snap))
                self.kind[srcid] = "snap"
            self.log("Pristine", {}, [srcid], fs)
        self.log("Load", dict(f=fid, o=d, src=srcid), [d], f, how=how)
        return d

    def scripted_values(self, c, attr, value):
        """a non-default value of one attribute through save, both ways of loading, and load onto a default object"""
        s1 = self.construct(c, **{attr: value})
        f1 = self.save(s1)
        self.load(f1, "dispatch")
        self.load(f1, "direct")
        s2 = self.construct(c)
        self.load_onto(s2, f1)
        # and the other way round: a file written from a default object loaded onto the object holding the non-default value
        f2 = self.save(self.construct(c))
        self.load_onto(s1, f2)

    def process(self, o):
        obj = self.live[o]
        k = obj.attrs.index("fft_settings")

        def f():
            with warnings.catch_warnings():
                warnings.simplefilter("ignore")
                self.h.process(copy.deepcopy(self.recs), obj)
        self.log("Process", dict(o=o), [], f, slots=[2 * k + 1, 2 * k + 2])

    def scripted(self, c, variant):
        """load onto an object whose dictionaries hold keys the file lacks (and the other way round)"""
        if variant == 0:      # the target was used for processing (FFT length stored), the file carries other keys only
            s1 = self.construct(c, fft_settings=dict(norm="ortho"))
            f1 = self.save(s1)
            s2 = self.construct(c)
            self.process(s2)
            self.load_onto(s2, f1)
            f2 = self.save(s2)
            self.load_onto(s1, f2)
        else:                 # explicit dictionaries with disjoint keys, both directions; then a file with fft_settings = null
            s1 = self.construct(c, fft_settings=dict(n=1024))
            s2 = self.construct(c, fft_settings=dict(norm="backward"))
            s3 = self.construct(c)
            f1, f2, f3 = self.save(s1), self.save(s2), self.save(s3)
            self.load_onto(s2, f1)
            self.load_onto(s1, f2)
            self.load_onto(s1, f3)
            self.load_onto(s3, f1)

    def step(self, op=None):
        h, rng = self.h, self.rng
        sets = [i for i, k in self.kind.items() if k == "set"]
        ops = ["Construct"] * 4 + ["Mutate"] * 4 + ["Assign"] * 2 + ["Save"] * 3 + ["Load"] * 3 + ["LoadOnto"] * 2 + ["Process"] * 2
        op = op or ops[rng.randint(len(ops))]
        if op == "Construct" or not sets:
            c = CLASSES[rng.randint(len(CLASSES))]
            cls = getattr(h, c)
            import inspect
            params = [p for p in inspect.signature(cls.__init__).parameters if p in MUTABLE_ARGS]
            chosen = [p for p in params if rng.rand() < 0.4]
            users = {}
            for p in chosen:
                # sometimes reuse a caller-owned value that was already handed to another object
                old = [i for i, k in self.kind.items() if k == f"user:{p}"]
                if old and rng.rand() < 0.5:
                    users[p] = old[rng.randint(len(old))]
                else:
                    u = self.nid("u")
                    val = MUTABLE_ARGS[p](rng)

                    def fu(u=u, val=val, p=p):
                        self.live[u], self.kind[u] = val, f"user:{p}"
                        self.w.add(u, "user", lambda val=val: [(val, val, True)])
                    self.log("User", {}, [u], fu)
                    users[p] = u
            o = self.nid("s")

            def f():
                obj = cls(**{p: self.live[u] for p, u in users.items()})
                self.live[o], self.kind[o] = obj, "set"
                self.w.add(o, f"set:{c}", set_slots(obj))
            probe = cls()
            attrs = probe.attrs
            args = [[2 * attrs.index(p) + 1, u] for p, u in users.items()]
            return self.log("Construct", dict(o=o, pristine=f"p_{c}"), [o], f, args=args)
        o = sets[rng.randint(len(sets))]
        obj = self.live[o]
        if op == "Mutate":
            muts = [(k, n_) for k, n_ in enumerate(obj.attrs) if isinstance(getattr(obj, n_), (list, dict, np.ndarray))]
            if not muts:
                return
            k, name = muts[rng.randint(len(muts))]
            v = getattr(obj, name)

            def f():
                if isinstance(v, dict):
                    inner = [x for x in v.values() if isinstance(x, (list, np.ndarray))]
                    if inner and rng.rand() < 0.6:
                        inner[0][0] = float(inner[0][0]) * 1.5 + 0.01
                    elif "bandwidth" in v:
                        v["bandwidth"] = float(v["bandwidth"]) * 1.1
                    else:
                        v["n"] = 65536
                elif isinstance(v, np.ndarray):
                    v[-1] = v[-1] + 1
                else:
                    v[-1] = 0.33 if isinstance(v[-1], float) else (1.25 if v[-1] is None else v[-1])
            return self.log("Mutate", dict(o=o), [], f, slots=[2 * k + 1, 2 * k + 2])
        if op == "Assign":
            names = [n_ for n_ in obj.attrs if n_ in MUTABLE_ARGS]
            if not names:
                return
            name = names[rng.randint(len(names))]
            u = self.nid("u")
            val = MUTABLE_ARGS[name](rng)

            def fu():
                self.live[u], self.kind[u] = val, "user:assigned"
                self.w.add(u, "user", lambda val=val: [(val, val, True)])
            self.log("User", {}, [u], fu)
            k = obj.attrs.index(name)
            return self.log("Assign", dict(o=o, u=u), [], lambda: setattr(obj, name, val), slots=[2 * k + 1, 2 * k + 2])
        if op == "Save":
            fid = self.nid("f")
            fn = self.file_name(fid)

            def f():
                obj.save(fn) if rng.rand() < 0.5 else h.write_settings_object_to_file(obj, fn)
                self.live[fid], self.kind[fid] = fn, "file"
                self.saved_from[fid] = (o, copy.deepcopy(obj))
                self.w.add(fid, "file", file_slots(fn))
            return self.log("Save", dict(o=o, f=fid), [fid], f)
        if op == "Load":
            files = [i for i, k in self.kind.items() if k == "file"]
            if not files:
                return
            fid = files[rng.randint(len(files))]
            src, snap = self.saved_from[fid]
            d = self.nid("s")
            how = "dispatch" if rng.rand() < 0.6 else "direct"

            def f():
                if how == "dispatch":
                    new = h.read_settings_object_from_file(self.live[fid])
                else:
                    new = type(snap)()
                    new.load(self.live[fid])
                self.live[d], self.kind[d] = new, "set"
                self.w.add(d, f"set:{type(new).__name__}", set_slots(new))
                # processing with the reloaded settings gives exactly the result of the settings that were saved
                return dict(procSame=bool(self.proc_digest(new) == self.proc_digest(snap)))
            # the class recorded for `src` is the class of the object at save time
            srcid = self.snap_ids.get(fid)
            if srcid is None:
                srcid = self.snap_ids[fid] = self.nid("k")

                def fs():
                    self.w.add(srcid, f"set:{type(snap).__name__}", set_slots(snap))
                    self.kind[srcid] = "snap"
                self.log("Pristine", {}, [srcid], fs)
            return self.log("Load", dict(f=fid, o=d, src=srcid), [d], f, how=how)
        if op == "LoadOnto":
            # obj.load(file) on an EXISTING object with a history of its own: afterwards it holds the file's content, no more, no less
            files = [i for i, k in self.kind.items() if k == "file" and type(self.saved_from[i][1]) is type(obj)]
            if not files:
                return
            fid = files[rng.randint(len(files))]
            snap = self.saved_from[fid][1]

            def f():
                obj.load(self.live[fid])
                return dict(procSame=bool(self.proc_digest(obj) == self.proc_digest(snap)))
            return self.log("LoadOnto", dict(f=fid, o=o), [], f)
        if op == "Process":
            if not hasattr(obj, "processing_method"):
                return
            k = obj.attrs.index("fft_settings")

            def f():
                with warnings.catch_warnings():
                    warnings.simplefilter("ignore")
                    h.process(copy.deepcopy(self.recs), obj)
            return self.log("Process", dict(o=o), [], f, slots=[2 * k + 1, 2 * k + 2])


def main():
    run = Run("C15")
    h = import_hvsrpy()
    rng = np.random.RandomState(run.seed + 15)
    wd = workdir("C15")
    t = np.arange(256) * 0.01
    recs = []
    for j in range(2):
        mk = lambda: np.sin(2 * np.pi * (3 + j) * t) + 0.3 * rng.normal(size=len(t))
        recs.append(h.SeismicRecording3C(h.TimeSeries(mk(), 0.01), h.TimeSeries(mk(), 0.01), h.TimeSeries(mk(), 0.01)))
    ntr, nsteps = (40, 9) if run.quick else (360, 12)
    traces = []
    for ti in range(ntr):
        d = Driver(h, rng, wd, recs)
        d.pristine()
        d.step("Construct")
        for _ in range(nsteps):
            d.step()
            if d.failed:
                break
        if d.failed:
            op, roles, msg = d.failed
            run.violation(f"settings:{op}:raised", f"history {ti+1}: {op} roles={roles} raised {msg} after {[e['op'] for e in d.events]}",
                          dict(kind="settings-raise", ops=[e["op"] for e in d.events]))
        traces.append(dict(ev=d.events))
    # scripted histories: obj.load(file) onto objects whose dictionaries hold keys the file lacks
    procs = [c for c in CLASSES if hasattr(getattr(h, c)(), "processing_method")]
    for ci, c in enumerate(procs):
        for variant in ((0, 1) if not run.quick else ((ci + run.seed) % 2,)):
            d = Driver(h, rng, wd, recs)
            d.pristine()
            d.scripted(c, variant)
            if d.failed:
                op, roles, msg = d.failed
                run.violation(f"settings:{op}:raised", f"scripted history ({c}, variant {variant}): {op} roles={roles} raised {msg}",
                              dict(kind="settings-raise", ops=[e["op"] for e in d.events]))
            traces.append(dict(ev=d.events))
    # scripted histories: attribute values whose TYPE differs from the default's (fractional azimuths vs the integer default array,
    # lists vs arrays, tuples) through save / load / load onto a default object
    import inspect
    sv = [("azimuths_in_degrees", np.array([0.0, 22.5, 45.0, 67.5, 112.5])), ("azimuths_in_degrees", [0.25, 30.5, 91.75]),
          ("azimuths_in_degrees", [60.0, 0.0, 120.0, 30.0]),
          ("filter_corner_frequencies_in_hz", [0.25, 12.5]), ("window_type_and_width", ["tukey", 0.35]),
          # scalar attributes, in particular values that are "falsy" in Python (0.0, None, False) where the default is not
          ("azimuth_in_degrees", 0.0), ("ppth_percentile_for_rotdpp_computation", 0.0), ("window_length_in_seconds", None),
          ("detrend", None), ("differentiate", True), ("orient_to_degrees_from_north", None), ("ignore_dissimilar_time_step_warning", True),
          ("handle_dissimilar_time_steps_by", "keeping_smallest_time_step"), ("method_to_combine_horizontals", "squared_average"),
          # the name the user chose is content: synonyms of a technique are different attribute values
          ("method_to_combine_horizontals", "quadratic_mean"), ("method_to_combine_horizontals", "vector_summation"),
          # the version a settings file was made with is an attribute like any other: it is what the file says, not what is installed
          ("hvsrpy_version", "2.0.0rc3")]
    k_ = 0
    for c in CLASSES:
        params = inspect.signature(getattr(h, c).__init__).parameters
        for attr, value in sv:
            if attr not in params or (attr == "method_to_combine_horizontals" and c != "HvsrTraditionalProcessingSettings"):
                continue        # (the sub-classes fix the method; passing another one makes an object of a different kind)
            k_ += 1
            if run.quick and attr not in ("azimuths_in_degrees", "azimuth_in_degrees", "ppth_percentile_for_rotdpp_computation", "method_to_combine_horizontals") and \
                    not (attr == "hvsrpy_version" and c in ("HvsrPreProcessingSettings", "HvsrAzimuthalProcessingSettings")) and (k_ + run.seed) % 3:
                continue
            d = Driver(h, rng, wd, recs)
            d.pristine()
            d.scripted_values(c, attr, copy.deepcopy(value))
            if d.failed:
                op, roles, msg = d.failed
                run.violation(f"settings:{op}:raised", f"scripted history ({c}, {attr}={value!r}): {op} roles={roles} raised {msg}",
                              dict(kind="settings-raise", ops=[e["op"] for e in d.events]))
            traces.append(dict(ev=d.events))
    acc = set()
    for b0 in range(0, len(traces), 120):          # batches keep a single TLC invocation well inside its time limit
        acc_b, res = heaplog.validate("TraceSettingsHeap", traces[b0:b0 + 120], "trace-C15", timeout=3000)
        acc |= {b0 + i for i in acc_b}
        run.add_tlc(res, f"TraceSettingsHeap: every recorded step against the storage/content rules (histories {b0 + 1}..{min(b0 + 120, len(traces))})")
    run.traces += len(traces)
    ops = {}
    for i, tr in enumerate(traces, start=1):
        for e in tr["ev"]:
            ops[e["op"]] = ops.get(e["op"], 0) + 1
        run.case(("hist", i) if len(tr["ev"]) >= 6 else None, replayed=False)
        if i not in acc:
            nd = run.notes.get("diagnosed", 0)
            run.notes["diagnosed"] = nd + 1
            k = heaplog.diagnose("TraceSettingsHeap", tr, "trace-C15") if nd < 8 else 0
            e = tr["ev"][min(k, len(tr["ev"])) - 1] if k else dict(op="undiagnosed", roles={}, post={})
            cls = ""
            if e["op"] in ("Construct", "Load", "LoadOnto"):
                cls = ":" + e["post"].get(e["roles"].get("o"), {}).get("kind", "?")
            run.violation(f"settings:{e['op']}{cls}",
                          f"history {i}: step {k} {e['op']} roles={e['roles']} {({k_: v for k_, v in e.items() if k_ in ('args', 'slots', 'how', 'procSame')})} "
                          f"is not allowed by the specification (settings objects share storage, a bystander or a pristine default changed, "
                          f"contents that must coincide differ, or the class/processing result did not survive)",
                          dict(kind="settings-trace", trace=tr, step=k))
    if traces:
        e = [e for e in traces[0]["ev"] if e["op"] == "Construct"][0]
        run.samples.append(dict(history_step=dict(op=e["op"], roles=e["roles"], args=e["args"], post_of_new=e["post"].get(e["roles"]["o"]))))
    run.notes["history_ops"] = ops
    # binding demonstration: corrupt one recorded field -> rejected
    bad = copy.deepcopy(traces[0])
    e = [e for e in bad["ev"] if e["op"] == "Construct"][0]
    e["post"][e["roles"]["o"]]["slots"][0][1] += 99999
    acc2, _ = heaplog.validate("TraceSettingsHeap", [bad], "trace-C15-neg", timeout=600)
    run.notes["corrupted_trace_rejected"] = (1 not in acc2)
    if 1 in acc2:
        raise heaplog.MachineryError("a corrupted trace was accepted by TraceSettingsHeap")
    return run.finish(
        rule="seeded random histories over the eight settings classes (construct with default / caller-owned / reused arguments, "
             "in-place mutation of lists, dicts and nested arrays, assignment, save by either API, load directly and through the "
             "dispatching reader, load onto an existing object with a history of its own, process), every step validated by TLC; non-trivial = history of >= 6 steps",
        exhaustive=False)


if __name__ == "__main__":
    sys.path.insert(0, __file__.rsplit("/", 1)[0])
    main_wrapper(main)
