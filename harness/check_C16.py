"""C16 - SESAME reliability and clarity verdicts match the 2004 guideline.

spec/Sesame.tla: the nine criteria and the epsilon/theta table transcribed from
the guideline over exact rationals (frequency grid containing the band edges
0.2, 0.5, 1, 2 Hz; integer mean curves of four profile families; sigma_A from an
alphabet bracketing every threshold; window lengths / counts / sigma_f around
the limits; full and trimmed search ranges).  Exact equalities are ties (either
verdict).  TLC checks that the band table is total and the monotonicity
consequences (more / longer windows never fail ii, a smaller sigma_f never fails
v) and exports every case; each is pushed through hvsrpy.sesame.reliability /
clarity at all three verbosity levels and the verdict vectors compared.
"""
import contextlib
import io
import json
import math
import sys

import numpy as np

from vcommon import Run, tlc, require_tlc_ok, import_hvsrpy, main_wrapper

FREQ14 = np.array([1, 2, 3, 4, 6, 8, 10, 15, 20, 30, 40, 60, 80, 160], dtype=float) / 20.0
NOEND = -99


def main():
    run = Run("C16")
    import_hvsrpy()
    from hvsrpy import sesame
    cfg = "Sesame_quick" if run.quick else "Sesame_thorough"
    res = tlc("SesameMC", cfg, timeout=6000, heap="12g")
    require_tlc_ok(res, cfg)
    run.add_tlc(res, f"{cfg}: BandTableTotal MoreWindowsNeverFailII SmallerStdNeverFailsV")
    cases = [c for c in res.cases if isinstance(c, dict) and "p0" in c]
    resc = tlc("SesameMC", "Sesame_coarse", timeout=600, workers=8)
    require_tlc_ok(resc, "Sesame_coarse")
    run.add_tlc(resc, "Sesame_coarse: grid with a ratio of 5 between samples (empty (f0/4, f0) and (f0, 4 f0) intervals)")
    coarse = [c for c in resc.cases if isinstance(c, dict) and "p0" in c]
    for c in coarse:
        c["coarse"] = True
    resh = tlc("SesameMC", "Sesame_halfopen", timeout=900, workers=8)
    require_tlc_ok(resh, "Sesame_halfopen")
    run.add_tlc(resh, "Sesame_halfopen: two-peak curves x half-open search ranges that cut the higher peak off")
    halfopen = [c for c in resh.cases if isinstance(c, dict) and "p0" in c]
    run.notes["half_open_cases_peak_not_global"] = sum(1 for c in halfopen if c["a"][c["p0"] - 1] != max(c["a"]))
    if run.notes["half_open_cases_peak_not_global"] == 0:
        raise Exception("non-vacuity failed: no half-open case selects a peak other than the global maximum")
    resf = tlc("SesameMC", "Sesame_fine", timeout=900, workers=8)
    require_tlc_ok(resf, "Sesame_fine")
    run.add_tlc(resf, "Sesame_fine: grid with samples at 0.94 / 0.951 / 1.051 / 1.06 f0 (criterion iv: 5 % band measured from f0)")
    fine = [c for c in resf.cases if isinstance(c, dict) and "p0" in c]
    for c in fine:
        c["fine"] = True
    resp = tlc("SesameMC", "Sesame_flat", timeout=900, workers=8)
    require_tlc_ok(resp, "Sesame_flat")
    run.add_tlc(resp, "Sesame_flat: flat-topped highest peak (two equal samples) above a lower ordinary peak")
    flat = [c for c in resp.cases if isinstance(c, dict) and "p0" in c]
    run.notes["flat_top_cases"] = len(flat)
    if not flat or any(c.get("npk") != 2 for c in flat):
        raise Exception("instance construction: the flat-top configuration should only yield two-answer cases")
    # both choices of the peak on the flat top describe the same input: the real verdicts may be those of either
    alt = {}
    for c in flat:
        alt.setdefault(json.dumps([c["a"], c["sp"], c["se"], c["lw"], c["nw"], c["sf"], c["rng"], sorted([c["p0"], c["p0"] + c["side"]])]), []).append(c["res"])
    for c in flat:
        c["alts"] = alt[json.dumps([c["a"], c["sp"], c["se"], c["lw"], c["nw"], c["sf"], c["rng"], sorted([c["p0"], c["p0"] + c["side"]])])]
    cases = coarse + halfopen + fine + flat + cases
    rng = np.random.RandomState(run.seed)
    if not run.quick and len(cases) > 150000:
        cases = [cases[i] for i in sorted(rng.choice(len(cases), 150000, replace=False).tolist())]
    names = ["reliability i", "reliability ii", "reliability iii", "clarity i", "clarity ii", "clarity iii", "clarity iv", "clarity v", "clarity vi"]
    nverb = 0
    FREQ5 = np.array([2, 10, 50, 250, 1250], dtype=float) / 20.0
    FREQ9 = np.array([700, 1500, 2820, 2853, 3000, 3153, 3180, 6000, 13000], dtype=float) / 1000.0
    for n_, c in enumerate(cases):
        FREQ = FREQ5 if c.get("coarse") else (FREQ9 if c.get("fine") else FREQ14)
        a = np.array(c["a"], dtype=float)
        p0 = c["p0"]
        sp, se = c["sp"][0] / c["sp"][1], c["se"][0] / c["se"][1]
        sig = np.full(len(a), se)
        sig[p0 - 1] = sp
        nb = p0 - 1 + c.get("side", 1)
        if 0 <= nb < len(a):
            sig[nb] = sp
        std = np.log(sig)
        lo, hi = c["rng"]
        # the specification's range ends are half-step grid positions; hand the functions the grid frequency itself
        r = (None if lo == NOEND else float(FREQ[lo // 2 - 1]), None if hi == NOEND else float(FREQ[hi // 2 - 1]))
        sf = c["sf"][0] / c["sf"][1]
        verb = 0
        if n_ % 50 == 0 or (c.get("coarse") and n_ % 3 == 0):
            verb = 1 + (n_ // 50 + n_) % 2
            nverb += 1
        exp = c["res"]
        key_case = f"a={c['a']} sigma_peak={sp} sigma_else={se} lw={c['lw']} nw={c['nw']} sf={sf} range={r}"
        try:
            with contextlib.redirect_stdout(io.StringIO()):
                rel = sesame.reliability(c["lw"], c["nw"], FREQ, a, std, search_range_in_hz=r, verbose=verb)
                cla = sesame.clarity(FREQ, a, std, sf, search_range_in_hz=r, verbose=verb)
        except Exception as e:
            empty_low = not any(FREQ[p0 - 1] / 4 < f < FREQ[p0 - 1] for f in FREQ)
            empty_high = not any(FREQ[p0 - 1] < f < FREQ[p0 - 1] * 4 for f in FREQ)
            cls = "verbose2-empty-interval" if (verb == 2 and (empty_low or empty_high)) else f"verbose{verb}"
            run.violation(f"sesame:raised:{cls}", f"{type(e).__name__}: {e} for {key_case} verbose={verb}", dict(kind="sesame", case=c, verbose=verb))
            continue
        got = [int(x) for x in rel] + [int(x) for x in cla]
        # the verdicts are statements about the curve, not about the order in which its samples are stored: the same arrays
        # reversed (a descending frequency axis, e.g. a curve converted from a period axis), whole range
        if n_ % 9 == 0 and lo == NOEND and hi == NOEND and all(e_ in (0, 1) for e_ in exp) and not c.get("alts"):
            try:
                with contextlib.redirect_stdout(io.StringIO()):
                    rel_r = sesame.reliability(c["lw"], c["nw"], FREQ[::-1].copy(), a[::-1].copy(), std[::-1].copy(), search_range_in_hz=r, verbose=0)
                    cla_r = sesame.clarity(FREQ[::-1].copy(), a[::-1].copy(), std[::-1].copy(), sf, search_range_in_hz=r, verbose=0)
                got_r = [int(x) for x in rel_r] + [int(x) for x in cla_r]
            except Exception as e:
                got_r = f"{type(e).__name__}: {e}"
            if got_r != list(exp):      # (judged against the specification's verdicts; cases with a tie anywhere are left out)
                run.violation("sesame:descending-axis", f"the same curve on a descending frequency axis gives {got_r}, the guideline says {list(exp)} for {key_case}",
                              dict(kind="sesame-rev", case=c))
        # criterion ii with a cycle count that is no whole number (window lengths are seconds, any real number): n_c = l_w n_w f0 = 200.5
        # passes (> 200), 199.5 fails; criterion i (f0 > 10 / l_w: f0 l_w = 66.5 resp. 66.8) passes, criterion iii does not depend on
        # the windows - the formulas of Sesame.tla (Nc, RelI, RelII) at window lengths outside the model's integer set
        if n_ % 25 == 0 and not c.get("alts") and exp[2] in (0, 1):
            f0_ = float(FREQ[p0 - 1])
            for nc_, want_ii in ((200.5, 1), (199.5, 0), (200.9, 1)):
                lw_ = nc_ / (3 * f0_)
                try:
                    with contextlib.redirect_stdout(io.StringIO()):
                        rel2 = [int(x) for x in sesame.reliability(lw_, 3, FREQ, a, std, search_range_in_hz=r, verbose=0)]
                except Exception as e:
                    rel2 = f"{type(e).__name__}: {e}"
                if rel2 != [1, want_ii, exp[2]]:
                    run.violation("sesame:reliability ii:fractional-cycle-count", f"window length {lw_} s x 3 windows x f0 {f0_} Hz = {nc_} cycles: reliability gives {rel2}, "
                                  f"the guideline [1, {want_ii}, {exp[2]}] for {key_case}", dict(kind="sesame-nc", case=c, nc=nc_))
        bad = [names[i] for i in range(9) if exp[i] in (0, 1) and got[i] != exp[i]]
        if bad and c.get("alts"):
            if any(all(e_[i] not in (0, 1) or got[i] == e_[i] for i in range(9)) for e_ in c["alts"]):
                bad = []
        if any(e_ == 2 for e_ in exp):
            run.ties += 1
        if exp[6] == 3:
            run.inconclusive += 1
        for nm in bad:
            run.violation(f"sesame:{nm}", f"{nm}: got {got[names.index(nm)]}, guideline says {exp[names.index(nm)]} for {key_case} "
                          f"(f0={FREQ[p0-1]} Hz, A0={a[p0-1]})", dict(kind="sesame", case=c, got=got))
        nt = tuple(exp) if all(e_ in (0, 1) for e_ in exp) else None
        run.case((n_,) if nt and 0 < sum(exp) < 9 else None,
                 sample=dict(mean_curve=c["a"], f0=float(FREQ[p0 - 1]), sigma_A_peak=sp, lw=c["lw"], nw=c["nw"], sigma_f=sf, range=r,
                             verdicts=dict(zip(names, exp))) if nt and len(run.samples) < 3 and sum(exp) in (4, 5, 6) else None)
    run.notes["verbose_runs"] = nverb
    return run.finish(
        rule="every instance of spec/Sesame.tla (mean-curve profile x peak position over all five threshold bands and their edges "
             "x sigma_A alphabet x window length/count x sigma_f x search range) through reliability() and clarity(), verbosity 0 "
             "and, on every 50th, 1 / 2; verdicts with exact ties are not judged; non-trivial = some criteria pass and some fail",
        exhaustive=run.quick)


if __name__ == "__main__":
    sys.path.insert(0, __file__.rsplit("/", 1)[0])
    main_wrapper(main)
