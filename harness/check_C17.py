"""C17 - power spectral densities are correctly normalised; diffuse-field HVSR agrees.

spec/Psd.tla: 4-sample windows of integer samples, DFT exact in Gaussian
integers; TLC checks Parseval on the interior bin, quadratic scaling,
non-negativity and the Welch average on every window over the value alphabet and
exports the exact density of every case (1 and 2 windows, several sampling
rates); each is replayed through process(..., PsdProcessingSettings) on all three
components.  For general windows (seeded noise, even and odd n, tapers, zero
padding) the specification's Parseval identity
    sum_{0<k<n/2} psd_k * fs/n = (sum y^2 - X0^2/n - X_{n/2}^2/n) / (L U)
is evaluated in floating point, with scaling by 2^k (exactly 4^k), the Welch
average and the diffuse-field relation sqrt((S(Pns)+S(Pew))/S(Pvt)).  PSD
preprocessing: bin-centred sinusoids are differentiated to 2 pi f cos, a flat
instrument response returns (x - mean) / sensitivity.
"""
import copy
import sys
import warnings

import numpy as np
from scipy.signal.windows import tukey

from vcommon import Run, tlc, require_tlc_ok, import_hvsrpy, main_wrapper

RTOL = 1e-9


def psd_settings(h, width=0.0, n="samples", smoothing=None):
    st = h.PsdProcessingSettings(window_type_and_width=["tukey", width], fft_settings={"n": None} if n == "samples" else ({"n": n} if n else None))
    st.smoothing = smoothing
    return st


def main():
    run = Run("C17")
    h = import_hvsrpy()
    ts = h.TimeSeries
    cfg = "Psd_quick" if run.quick else "Psd_thorough"
    res = tlc("Psd", cfg, timeout=3000, heap="8g")
    require_tlc_ok(res, cfg)
    run.add_tlc(res, f"{cfg}: ParsevalInterior Quadratic NonNegative WelchIsAverage")
    cases = [c for c in res.cases if isinstance(c, dict) and "psd1" in c]
    rng = np.random.RandomState(run.seed + 17)
    if not run.quick and len(cases) > 40000:
        cases = [cases[i] for i in sorted(rng.choice(len(cases), 40000, replace=False).tolist())]

    def proc(recs, st):
        with warnings.catch_warnings():
            warnings.simplefilter("ignore")
            return h.process(copy.deepcopy(recs), st)

    for ci, c in enumerate(cases):
        fs = float(c["fs"])
        dt = 1.0 / fs
        wins = [np.array(w, dtype=float) for w in c["win"]]
        # the three components carry the windows in different roles so that a component mix-up shows
        recs = [h.SeismicRecording3C(ts(w, dt), ts(w[::-1] * 2.0, dt), ts(w + 1.0, dt)) for w in wins]
        out = proc(recs, psd_settings(h))
        exp = c["psd1"][0] / c["psd1"][1]
        got = out["ns"].amplitude
        key = f"windows={c['win']} fs={c['fs']}"
        if len(got) != 3 or not np.allclose(out["ns"].frequency, np.fft.rfftfreq(4, dt)):
            run.violation("psd4:shape", f"{key}: PSD has {len(got)} bins at {out['ns'].frequency.tolist()}", dict(kind="psd4", case=c))
            continue
        if not abs(got[1] - exp) <= RTOL * abs(exp) + 1e-15:
            run.violation("psd4:value", f"{key}: interior-bin density {got[1]}, exact {exp}", dict(kind="psd4", case=c))
        # ew carries 2 * reversed window: |X1|^2 is 4 times that of the window
        if not abs(out["ew"].amplitude[1] - 4 * exp) <= RTOL * abs(4 * exp) + 1e-15:
            run.violation("psd4:ew-component", f"{key}: ew density {out['ew'].amplitude[1]}, exact {4*exp}", dict(kind="psd4", case=c))
        # vt carries window + 1: the interior bin ignores the offset
        if not abs(out["vt"].amplitude[1] - exp) <= RTOL * abs(exp) + 1e-15:
            run.violation("psd4:vt-component", f"{key}: vt density {out['vt'].amplitude[1]}, exact {exp}", dict(kind="psd4", case=c))
        nt = (ci,) if exp > 0 and len(wins) == 2 else None
        run.case(nt, sample=dict(windows=c["win"], fs=c["fs"], exact_interior_density=exp) if nt and len(run.samples) < 2 else None)

    general(run, h, rng, proc)
    long_windows(run, h, rng, proc)
    pole_zero_response(run, h, rng)
    mixed_time_steps(run, h, rng, proc)
    preprocessing(run, h, rng)
    psd_chain(run, h, rng)
    return run.finish(
        rule="every 4-sample case of spec/Psd.tla (value alphabet^4 x second window x sampling rate) on all three components; Parseval "
             "identity, 4^k scaling, Welch average and diffuse-field relation on seeded noise (n even/odd, padded, tapered); analytic PSD "
             "preprocessing cases; non-trivial = non-zero interior density with two windows",
        exhaustive=run.quick)


def mixed_time_steps(run, h, rng, proc):
    """'obtained from the same windows': with a keeping policy for dissimilar time steps the diffuse-field curve (and the PSD) is
    that of the KEPT windows - whatever the dropped windows were and wherever they stood in the list."""
    ts = h.TimeSeries
    n = 600
    def rec(dt, k):
        w = rng.normal(size=n) + 0.2 * np.sin(2 * np.pi * 5.0 * np.arange(n) * dt + k)
        return h.SeismicRecording3C(ts(w, dt), ts(w[::-1] * 0.7, dt), ts(np.roll(w, 17) * 0.5, dt))
    kept = [rec(0.01, k) for k in range(3)]
    odd = rec(0.02, 9)
    sm = dict(operator="konno_and_ohmachi", bandwidth=30.0, center_frequencies_in_hz=np.geomspace(1.0, 20.0, 9))
    for policy in ("keeping_majority_time_step", "keeping_smallest_time_step"):
        for where, lst in (("first", [odd] + kept), ("middle", kept[:1] + [odd] + kept[1:]), ("last", kept + [odd])):
            mk = lambda: h.HvsrDiffuseFieldProcessingSettings(window_type_and_width=["tukey", 0.2], smoothing=dict(sm), handle_dissimilar_time_steps_by=policy)
            got = proc(lst, mk()).amplitude
            want = proc(kept, mk()).amplitude
            if not np.allclose(got, want, rtol=1e-12, atol=0):
                run.violation("psd:diffuse-field:dissimilar-time-steps", f"diffuse field, {policy}, the recording with the other time step {where} in the list: the curve "
                              f"differs from the curve of the kept recordings alone (max rel diff {np.max(np.abs(got - want) / np.abs(want)):.2e})",
                              dict(kind="psd-mixed-dt", policy=policy, where=where))
            # (the PSD path itself never consults handle_dissimilar_time_steps_by - an observation, outside the listed properties)
            run.case(("mixed-dt", policy, where))


def pole_zero_response(run, h, rng):
    """PSD preprocessing with a pole-zero response: the spectrum of the (demeaned, tapered) record is divided by
    H(s) = A0 * S * prod(s - z) / prod(s - p) at s = 2 pi f j, the 0 Hz bin removed - stated here with the product formula itself."""
    from hvsrpy.instrument_response import InstrumentTransferFunction
    from scipy.signal.windows import tukey as _tukey
    ts = h.TimeSeries
    # ONE response object per sensor, used for every record of that sensor - also for records that share the FFT length but not
    # the time step (the response is a function of frequency in Hz, not of the bin number)
    sensors = []
    for k_ in range(2):
        poles = [[-4.44 + 4.44j, -4.44 - 4.44j], [-0.037 + 0.037j, -0.037 - 0.037j, -251.3, -131.0 + 467.3j, -131.0 - 467.3j]][k_]
        zeros = [0j, 0j]
        sens, a0 = (400.0, 1.0) if k_ == 0 else (1.5e3, 2.5)
        sensors.append((poles, zeros, sens, a0, InstrumentTransferFunction(poles=poles, zeros=zeros, instrument_sensitivity=sens, normalization_factor=a0)))
    plan = [(200, 100.0, 0), (200, 50.0, 0), (200, 200.0, 0), (255, 100.0, 1), (255, 50.0, 1), (128, 100.0, 1), (180, 50.0, 0), (190, 200.0, 0)]
    shared_settings = {}
    for trial in range(len(plan) if run.quick else 20):
        n, fs, k_ = plan[trial] if trial < len(plan) else (int(rng.choice([128, 200, 255])), float(rng.choice([50.0, 100.0])), trial % 2)
        dt = 1.0 / fs
        poles, zeros, sens, a0, itf = sensors[k_]
        width = float(rng.choice([0.0, 0.3]))
        y = rng.normal(size=n) + 3.0
        rec = h.SeismicRecording3C(ts(y, dt), ts(2 * y, dt), ts(y[::-1], dt))
        if trial % 2 == 0 or k_ not in shared_settings:
            st = h.PsdPreProcessingSettings(orient_to_degrees_from_north=None, filter_corner_frequencies_in_hz=[None, None], window_length_in_seconds=None,
                                            detrend=None, window_type_and_width=["tukey", width], fft_settings={"n": None}, instrument_transfer_function=itf)
            shared_settings.setdefault(k_, st)
        if trial % 2 == 1:
            # ONE settings object (and with it one response object) for the sessions of a sensor, whatever their sampling rate;
            # the FFT length is whatever the settings object holds after the call
            st = shared_settings[k_]
            st.window_type_and_width = ["tukey", width]
        with warnings.catch_warnings():
            warnings.simplefilter("ignore")
            out = h.preprocess([copy.deepcopy(rec)], st)[0]
        nfft = (st.fft_settings or {}).get("n") or n
        if nfft < n:
            run.violation("psd-pre:fft-shorter-than-record", f"n={n}: the settings hold an FFT length of {nfft} after the call", dict(kind="psd-pz", n=n, fs=fs, trial=trial))
            continue
        z = (y - y.mean()) * _tukey(n, alpha=width)
        f = np.fft.rfftfreq(nfft, dt)
        s_ = 2j * np.pi * f
        H = a0 * sens * np.prod([s_ - zz for zz in zeros], axis=0) / np.prod([s_ - pp for pp in poles], axis=0)
        X = np.fft.rfft(z, nfft)
        Y = np.zeros_like(X)
        nz = np.abs(H) > 0
        Y[nz] = X[nz] / H[nz]
        Y[0] = 0
        want = np.fft.irfft(Y, nfft)[:n]
        scale_ = np.max(np.abs(want))
        if not (np.allclose(out.ns.amplitude, want, atol=1e-9 * scale_) and np.allclose(out.ew.amplitude, 2 * want, atol=2e-9 * scale_)):
            run.violation("psd-pre:pole-zero-response", f"n={n} fs={fs} taper={width} poles={poles} zeros={zeros} S={sens} A0={a0}: the output is not the record's spectrum "
                          f"divided by A0 S prod(s - z)/prod(s - p) at s = 2 pi f j (max abs diff {np.max(np.abs(out.ns.amplitude - want)):.3g}, scale {scale_:.3g})",
                          dict(kind="psd-pz", n=n, fs=fs, trial=trial))
        run.case(("pole-zero", trial))


def long_windows(run, h, rng, proc):
    """Windows longer than the 32 768-point minimum with DEFAULT fft settings: whatever FFT length is chosen must not be
    shorter than the window (zero padding, never truncation), and Parseval holds for it."""
    ts = h.TimeSeries
    for n in ((40000, 33001) if run.quick else (40000, 33001, 46340, 46341, 70001, 92000)):
        fs, width = 100.0, float(rng.choice([0.0, 0.2]))
        dt = 1.0 / fs
        w = rng.normal(size=n) + 0.3
        rec = h.SeismicRecording3C(ts(w, dt), ts(w * 0.5, dt), ts(w[::-1], dt))
        out = proc([rec], psd_settings(h, width, None))
        freq, got = out["ns"].frequency, out["ns"].amplitude
        nfft = 2 * (len(freq) - 1)
        rep = dict(kind="psd-long", n=n, width=width, nfft=nfft)
        if nfft < n:
            run.violation("psd:fft-shorter-than-window", f"a {n}-sample window with default fft settings is transformed with n={nfft}: the window is cropped", rep)
            continue
        taper = tukey(n, alpha=width)
        y = np.zeros(nfft)
        y[:n] = w * taper
        rhs = (np.sum(y ** 2) - y.sum() ** 2 / nfft - (y * (-1.0) ** np.arange(nfft)).sum() ** 2 / nfft) / (n * np.mean(taper ** 2))
        lhs = np.sum(got[1:nfft // 2]) * fs / nfft
        if not abs(lhs - rhs) <= 1e-9 * abs(rhs):
            run.violation("psd:parseval", f"n={n} default fft settings (nfft={nfft}) taper={width}: interior bins carry {lhs}, the tapered signal's mean square "
                          f"outside the two excluded bins is {rhs}", rep)
        # the analytic derivative keeps every sample of a long window
        k = 37
        tt = np.arange(n) * dt
        f0 = k * fs / 65536 if n <= 65536 else k * fs / 131072
        x = np.sin(2 * np.pi * f0 * tt)
        base = dict(orient_to_degrees_from_north=None, filter_corner_frequencies_in_hz=[None, None], window_length_in_seconds=None,
                    detrend=None, window_type_and_width=["tukey", 0.0])
        with warnings.catch_warnings():
            warnings.simplefilter("ignore")
            o2 = h.preprocess([h.SeismicRecording3C(ts(x, dt), ts(x, dt), ts(x, dt))], h.PsdPreProcessingSettings(differentiate=True, **base))[0]
        if o2.ns.n_samples != n:
            run.violation("psd-pre:differentiate:length", f"differentiating a {n}-sample record returns {o2.ns.n_samples} samples", rep)
        run.case(("long", n))


def general(run, h, rng, proc):
    ts = h.TimeSeries
    trials = 40 if run.quick else 600
    for t in range(trials):
        n = int(rng.choice([16, 50, 64, 101, 128, 255]))
        fs = float(rng.choice([1.0, 4.0, 50.0, 100.0]))
        dt = 1.0 / fs
        width = float(rng.choice([0.0, 0.1, 0.5, 1.0]))
        W = int(rng.choice([1, 2, 3]))
        if t < 3:
            W = (70, 150, 129)[t]       # "for several windows": many windows too (an implementation may accumulate in batches)
        pad = rng.choice(["samples", "pad"])
        wins = [rng.normal(size=n) + 0.3 for _ in range(W)]
        recs = [h.SeismicRecording3C(ts(w, dt), ts(w * 0.5, dt), ts(w[::-1], dt)) for w in wins]
        nfft = n if pad == "samples" else int(2 ** np.ceil(np.log2(n)) * 2)
        if pad == "pad":
            nfft = 32768            # prepare_fft_settings raises any stored n below 32 768 to 32 768

        def mk():                   # fresh settings for every call (process stores the FFT length in them)
            return psd_settings(h, width, "samples" if pad == "samples" else 32768)
        try:
            out = proc(recs, mk())
        except Exception as e:
            run.violation(f"psd:raised:{'odd' if nfft % 2 else 'even'}-n", f"n={n} fs={fs} taper={width} windows={W} nfft={nfft}: process() raised {type(e).__name__}: {e}",
                          dict(kind="psd-general", n=n, fs=fs, width=width, W=W, nfft=nfft))
            continue
        got = out["ns"].amplitude
        freq = out["ns"].frequency
        taper = tukey(n, alpha=width)
        U = np.mean(taper ** 2)
        key = f"n={n} fs={fs} taper={width} windows={W} nfft={nfft}"
        rep = dict(kind="psd-general", n=n, fs=fs, width=width, W=W, nfft=nfft, seed=run.seed, trial=t)
        # Parseval over the interior bins, per the specification's identity, averaged over the windows
        rhs = 0.0
        for w in wins:
            y = np.zeros(nfft)
            y[:n] = w * taper
            x0 = y.sum()
            xn2 = (y * (-1.0) ** np.arange(nfft)).sum() if nfft % 2 == 0 else 0.0
            rhs += (np.sum(y ** 2) - x0 ** 2 / nfft - xn2 ** 2 / nfft) / (n * U)
        rhs /= W
        interior = slice(1, nfft // 2) if nfft % 2 == 0 else slice(1, (nfft + 1) // 2)
        lhs = np.sum(got[interior]) * fs / nfft
        if not abs(lhs - rhs) <= 1e-9 * abs(rhs):
            run.violation("psd:parseval", f"{key}: interior bins carry {lhs}, the tapered signal's mean square outside the two excluded bins is {rhs}", rep)
        if len(freq) != nfft // 2 + 1 or not np.allclose(freq, np.fft.rfftfreq(nfft, dt)):
            run.violation("psd:frequencies", f"{key}: frequency vector is not rfftfreq(n, dt)", rep)
        # scaling by 2^k multiplies the density by exactly 4^k
        k = int(rng.choice([-2, 3]))
        recs2 = [h.SeismicRecording3C(ts(w * 2.0 ** k, dt), ts(w * 0.5 * 2.0 ** k, dt), ts(w[::-1] * 2.0 ** k, dt)) for w in wins]
        got2 = proc(recs2, mk())["ns"].amplitude
        if not np.array_equal(got2, got * 4.0 ** k):
            run.violation("psd:quadratic-scaling", f"{key}: scaling the signal by 2^{k} does not scale the density by exactly 4^{k}", rep)
        # Welch: the density of several windows is the average of the single-window densities
        if W > 1:
            singles = np.mean([proc([r], mk())["ns"].amplitude for r in recs], axis=0)
            if not np.allclose(got, singles, rtol=1e-12, atol=0):
                run.violation("psd:welch-average", f"{key}: density of {W} windows is not the average of the single-window densities", rep)
        # ew = 0.5 * ns -> a quarter of the density; vt = reversed -> same magnitudes
        if not np.allclose(out["ew"].amplitude, got * 0.25, rtol=1e-12):
            run.violation("psd:components", f"{key}: ew component (half the ns signal) does not have a quarter of its density", rep)
        # diffuse field vs PSD path with the same smoothing
        if t % 2 == 0:
            sm = dict(operator=str(rng.choice(["konno_and_ohmachi", "linear_rectangular", "log_triangular"])), bandwidth=0,
                      center_frequencies_in_hz=np.linspace(fs * 0.1, fs * 0.4, 6))
            sm["bandwidth"] = {"konno_and_ohmachi": 20.0, "linear_rectangular": fs * 0.15, "log_triangular": 0.4}[sm["operator"]]
            stp = psd_settings(h, width, "samples" if pad == "samples" else 32768, smoothing=dict(sm))
            p = proc(recs, stp)
            df = h.HvsrDiffuseFieldProcessingSettings(window_type_and_width=["tukey", width], smoothing=dict(sm), fft_settings={"n": None} if pad == "samples" else {"n": 32768})
            d = proc(recs, df)
            exp = np.sqrt((p["ns"].amplitude + p["ew"].amplitude) / p["vt"].amplitude)
            if not np.allclose(d.amplitude, exp, rtol=1e-9):
                run.violation("psd:diffuse-field", f"{key} smoothing={sm['operator']}: diffuse-field HVSR differs from sqrt((S(Pns)+S(Pew))/S(Pvt))", rep)
            # (the three components above are one signal scaled / reversed: their ratio does not depend on the taper.)  Three INDEPENDENT
            # components: the ratio of the densities obtained with THIS taper and THIS FFT length, also against the periodogram written out
            ind = [[rng.normal(size=n) + 0.2 for _ in range(3)] for _ in range(W)]
            recs_i = [h.SeismicRecording3C(ts(a_, dt), ts(b_, dt), ts(c_, dt)) for a_, b_, c_ in ind]
            p_i, d_i = proc(recs_i, psd_settings(h, width, "samples" if pad == "samples" else 32768, smoothing=dict(sm))), proc(recs_i, h.HvsrDiffuseFieldProcessingSettings(
                window_type_and_width=["tukey", width], smoothing=dict(sm), fft_settings={"n": None} if pad == "samples" else {"n": 32768}))
            exp_i = np.sqrt((p_i["ns"].amplitude + p_i["ew"].amplitude) / p_i["vt"].amplitude)
            raw = [np.mean([np.abs(np.fft.rfft(w_[c_] * taper, nfft)) ** 2 for w_ in ind], axis=0) for c_ in range(3)]      # common factors cancel in the ratio
            fr_ = np.fft.rfftfreq(nfft, dt)
            smooth = h.smoothing.SMOOTHING_OPERATORS[sm["operator"]]
            sraw = smooth(fr_, np.array([raw[0] + raw[1], raw[2]]), np.asarray(sm["center_frequencies_in_hz"], dtype=float), sm["bandwidth"])
            exp_raw = np.sqrt(sraw[0] / sraw[1])
            if not (np.allclose(d_i.amplitude, exp_i, rtol=1e-9) and np.allclose(d_i.amplitude, exp_raw, rtol=1e-9)):
                run.violation("psd:diffuse-field", f"{key} smoothing={sm['operator']}, independent components: diffuse-field HVSR {np.ravel(d_i.amplitude)[:3].tolist()}... differs from "
                              f"sqrt((S(Pns)+S(Pew))/S(Pvt)) = {exp_i[:3].tolist()}... (periodograms of the windows tapered with tukey {width}: {exp_raw[:3].tolist()}...)", rep)
            # a ratio of densities: unchanged when all three components are multiplied by one factor, however small or large
            # (2^-45 ~ 3e-14: ground velocity in m/s; the densities themselves are ~1e-27)
            for kx in (-45, 40):
                recs_x = [h.SeismicRecording3C(ts(w * 2.0 ** kx, dt), ts(w * 0.5 * 2.0 ** kx, dt), ts(w[::-1] * 2.0 ** kx, dt)) for w in wins]
                df_x = h.HvsrDiffuseFieldProcessingSettings(window_type_and_width=["tukey", width], smoothing=dict(sm), fft_settings={"n": None} if pad == "samples" else {"n": 32768})
                dx = proc(recs_x, df_x)
                if not np.array_equal(dx.amplitude, d.amplitude):
                    run.violation("psd:diffuse-field:scale", f"{key} smoothing={sm['operator']}: multiplying all components by 2^{kx} changes the diffuse-field HVSR "
                                  f"(max rel diff {np.max(np.abs(dx.amplitude - d.amplitude) / d.amplitude):.2e})", rep)
        run.case(("gen", t), sample=dict(n=n, fs=fs, taper=width, windows=W, nfft=nfft, parseval_lhs=float(lhs), parseval_rhs=float(rhs)) if t == 0 else None)


def preprocessing(run, h, rng):
    ts = h.TimeSeries
    trials = 12 if run.quick else 120
    for t in range(trials):
        n = int(rng.choice([64, 100, 256]))
        fs = float(rng.choice([10.0, 100.0]))
        dt = 1.0 / fs
        k = int(rng.randint(1, n // 4))
        tt = np.arange(n) * dt
        f = k * fs / n
        x = np.sin(2 * np.pi * f * tt)
        rec = h.SeismicRecording3C(ts(x, dt), ts(2 * x, dt), ts(np.cos(2 * np.pi * f * tt), dt))
        base = dict(orient_to_degrees_from_north=None, filter_corner_frequencies_in_hz=[None, None], window_length_in_seconds=None,
                    detrend=None, window_type_and_width=["tukey", 0.0], fft_settings={"n": None})
        with warnings.catch_warnings():
            warnings.simplefilter("ignore")
            out = h.preprocess([copy.deepcopy(rec)], h.PsdPreProcessingSettings(differentiate=True, **base))[0]
        exp = 2 * np.pi * f * np.cos(2 * np.pi * f * tt)
        rep = dict(kind="psd-pre", n=n, fs=fs, k=k)
        if not (np.allclose(out.ns.amplitude, exp, atol=1e-8 * (2 * np.pi * f)) and np.allclose(out.ew.amplitude, 2 * exp, atol=2e-8 * (2 * np.pi * f))
                and np.allclose(out.vt.amplitude, -2 * np.pi * f * np.sin(2 * np.pi * f * tt), atol=1e-8 * (2 * np.pi * f))):
            run.violation("psd-pre:differentiate", f"n={n} fs={fs} bin {k}: differentiating sin(2 pi f t) does not give 2 pi f cos(2 pi f t)", rep)
        sens = float(rng.choice([4.0, 1250.0]))
        itf = h.InstrumentTransferFunction(poles=[], zeros=[], instrument_sensitivity=sens, normalization_factor=1.0) \
            if hasattr(h, "InstrumentTransferFunction") else None
        if itf is None:
            from hvsrpy.instrument_response import InstrumentTransferFunction
            itf = InstrumentTransferFunction(poles=[], zeros=[], instrument_sensitivity=sens, normalization_factor=1.0)
        y = rng.normal(size=n) + 5.0
        rec2 = h.SeismicRecording3C(ts(y, dt), ts(y * 2, dt), ts(y - 7, dt))
        # the record is demeaned and tapered first; "division by sensitivity with the mean removed" then acts on the TAPERED
        # series, whose mean is not zero any more when the taper has a width
        for width in (0.0, float(rng.choice([0.3, 1.0]))):
            from scipy.signal.windows import tukey as _tukey
            base_w = dict(base, window_type_and_width=["tukey", width])
            with warnings.catch_warnings():
                warnings.simplefilter("ignore")
                out2 = h.preprocess([copy.deepcopy(rec2)], h.PsdPreProcessingSettings(instrument_transfer_function=itf, **base_w))[0]
            z = (y - y.mean()) * _tukey(n, alpha=width)
            want = (z - z.mean()) / sens
            if not (np.allclose(out2.ns.amplitude, want, atol=1e-9) and np.allclose(out2.ew.amplitude, 2 * want, atol=2e-9)
                    and np.allclose(out2.vt.amplitude, want, atol=1e-9)):
                run.violation("psd-pre:flat-response", f"n={n} fs={fs} taper width {width}: removing a flat response of sensitivity {sens} does not give "
                              f"(tapered series - its mean)/sensitivity (max abs diff {np.max(np.abs(out2.ns.amplitude - want)):.3g})", dict(rep, width=width))
        run.case(("pre", t))


def psd_chain(run, h, rng):
    """spec/PreOrder.tla (PsdSteps): the PSD preprocessing chain for every settings combination x response x
    differentiation, executed with the library's own primitives, must equal preprocess() bit for bit."""
    from hvsrpy.instrument_response import InstrumentTransferFunction, _remove_instrument_response, _differentiate
    res = tlc("PreOrder", "PreOrder", timeout=600, workers=4)
    require_tlc_ok(res, "PreOrder")
    run.add_tlc(res, "PreOrder: PsdOrderOK (tapered exactly once, response removed before differentiation) for every settings combination")
    combos = [c for c in res.cases if isinstance(c, dict) and c.get("psd")]
    if run.quick:
        combos = [c for i, c in enumerate(combos) if i % 4 == run.seed % 4]
    ts = h.TimeSeries
    fs = 100.0
    corners = {"none": [None, None], "low": [None, 12.0], "high": [1.5, None], "band": [1.5, 12.0]}
    itf = InstrumentTransferFunction(poles=[-4.44 + 4.44j, -4.44 - 4.44j], zeros=[0j, 0j], instrument_sensitivity=400.0, normalization_factor=1.0)
    n = 420
    mk = lambda: np.cumsum(rng.normal(size=n)) * 0.2 + rng.normal(size=n) + 3.0
    base = h.SeismicRecording3C(ts(mk(), 1 / fs), ts(mk(), 1 / fs), ts(mk(), 1 / fs), degrees_from_north=20.0)
    for c in combos:
        for resp in (0, 1):
            for diff in (0, 1):
                chain = c["chains"][str(resp)][str(diff)] if isinstance(c["chains"], dict) else c["chains"][resp][diff]
                width = float(rng.choice([0.1, 0.5]))
                st = h.PsdPreProcessingSettings(orient_to_degrees_from_north=None if c["o"] == "none" else float(c["o"]),
                                                filter_corner_frequencies_in_hz=corners[c["f"]],
                                                window_length_in_seconds=None if c["s"] == "none" else float(c["s"]),
                                                detrend=None if c["d"] == "none" else c["d"], window_type_and_width=["tukey", width],
                                                fft_settings={"n": None}, instrument_transfer_function=itf if resp else None, differentiate=bool(diff))
                with warnings.catch_warnings():
                    warnings.simplefilter("ignore")
                    got = h.preprocess([copy.deepcopy(base)], st)
                    rec = copy.deepcopy(base)
                    wins = [rec]
                    fft = {"n": n}
                    for step in chain:
                        if step == "orient":
                            rec.orient_sensor_to(float(c["o"]))
                        elif step == "filter":
                            rec.butterworth_filter(corners[c["f"]])
                        elif step == "demean":
                            rec.detrend(type="constant")
                        elif step == "taper":
                            rec.window("tukey", width)
                        elif step == "remove_response":
                            for comp in ("ns", "ew", "vt"):
                                setattr(rec, comp, _remove_instrument_response(getattr(rec, comp), itf, fft))
                        elif step == "differentiate":
                            for comp in ("ns", "ew", "vt"):
                                setattr(rec, comp, _differentiate(getattr(rec, comp), fft))
                        elif step == "split":
                            wins = rec.split(float(c["s"]))
                        elif step == "detrend_each":
                            for w in wins:
                                w.detrend(type=c["d"])
                same = len(got) == len(wins) and all(np.array_equal(a.ns.amplitude, b.ns.amplitude) and np.array_equal(a.ew.amplitude, b.ew.amplitude)
                                                     and np.array_equal(a.vt.amplitude, b.vt.amplitude) for a, b in zip(got, wins))
                if not same:
                    run.violation(f"psd-pre:chain:response={resp}:differentiate={diff}",
                                  f"PSD preprocessing with orient={c['o']} filter={c['f']} window={c['s']} detrend={c['d']} taper={width} response={bool(resp)} "
                                  f"differentiate={bool(diff)} differs from the documented chain {chain} executed with the library's own primitives",
                                  dict(kind="psd-chain", combo=c, resp=resp, diff=diff, width=width))
                run.case(("chain", c["o"], c["f"], c["s"], c["d"], resp, diff) if (resp or diff) else None)


if __name__ == "__main__":
    sys.path.insert(0, __file__.rsplit("/", 1)[0])
    main_wrapper(main)
