"""C18 - recordings persist exactly; copies are independent; trim keeps the right samples.

spec/Heap.tla + TraceRecordingHeap.tla: storage identity and content versions of
arrays, TimeSeries, SeismicRecording3C and saved files; per operation the spec
states which objects may change, which are created on fresh storage, and which
contents coincide (copy = source, file = saved recording, loaded = file, split
leaves the source alone, an edit affects only its owner).  Seeded random
histories of the real API (construct, copy, split, trim / filter / detrend /
taper / re-orient, in-place edits of samples, save, load) are logged with
np.shares_memory alias classes and SHA-256 content digests and every step is
validated by TLC.
spec/Trim.tla: every (N, sampling rate, start, end on the quarter-interval
lattice) case replayed on TimeSeries.trim and SeismicRecording3C.trim.
"""
import copy
import json
import os
import sys
import warnings
from fractions import Fraction

import numpy as np

from vcommon import Run, tlc, require_tlc_ok, import_hvsrpy, main_wrapper, workdir
import heaplog
from heaplog import World, rec_slots, ts_slots, arr_slots


def trim_cases(run, h):
    cfg = "Trim_quick" if run.quick else "Trim_thorough"
    res = tlc("Trim", cfg, timeout=3000)
    require_tlc_ok(res, cfg)
    run.add_tlc(res, f"{cfg}: InsideRecord, NearestIsClosest")
    allc = [c for c in res.cases if isinstance(c, dict) and "qs" in c]
    trim_twice(run, h, allc)
    # long / densely sampled records (time / dt up to 2e5): a trim time that IS a sample time selects that sample (nearest sample,
    # the relation of Trim.tla, here far beyond the sizes TLC enumerates)
    for n, fs, pairs in ((200001, 1000.0, ((120.0, 180.0), (0.0, 199.999), (57.123, 57.124), (199.0, 200.0))),
                         (120001, 100.0, ((600.0, 1100.0), (1199.99, 1200.0), (0.01, 999.99)))):
        dt = 1.0 / fs
        ramp = np.arange(n, dtype=float)
        for t0, t1 in pairs:
            i0, i1 = int(round(t0 * fs)), int(round(t1 * fs))
            for what in ("TimeSeries", "SeismicRecording3C"):
                o = h.TimeSeries(ramp, dt) if what == "TimeSeries" else h.SeismicRecording3C(h.TimeSeries(ramp, dt), h.TimeSeries(ramp, dt), h.TimeSeries(ramp, dt))
                try:
                    o.trim(t0, t1)
                    a = o.amplitude if what == "TimeSeries" else o.ew.amplitude
                    got = (int(a[0]), int(a[-1]), len(a))
                except IndexError as e:
                    got = f"IndexError: {e}"
                if got != (i0, i1, i1 - i0 + 1):
                    run.violation(f"trim:{what}:long-record", f"{what} of {n} samples at {fs} Hz, trim({t0}, {t1}): kept (first, last, count) = {got}, "
                                  f"the samples at these times are {i0}..{i1} ({i1 - i0 + 1})", dict(kind="trim-long", n=n, fs=fs, t0=t0, t1=t1))
            run.case(("trim-long", n, fs, t0, t1))
    for c in allc:
        n, fs, qs, qe = c["n"], c["fs"], c["qs"], c["qe"]
        dt = 1.0 / fs
        start, end = float(Fraction(qs, 4 * fs)), float(Fraction(qe, 4 * fs))
        ramp = np.arange(n, dtype=float)
        allowed = [tuple(a) for a in c["allowed"]]
        rep = dict(kind="trim", n=n, fs=fs, qs=qs, qe=qe)
        for what in ("TimeSeries", "SeismicRecording3C"):
            if what == "SeismicRecording3C" and (n + qs + qe) % 4:
                continue
            if what == "TimeSeries":
                o = h.TimeSeries(ramp, dt)
                get = lambda: o.amplitude
            else:
                o = h.SeismicRecording3C(h.TimeSeries(ramp, dt), h.TimeSeries(ramp + 100, dt), h.TimeSeries(ramp + 200, dt))
                get = lambda: o.vt.amplitude - 200
            try:
                o.trim(start, end)
            except IndexError:
                if not c["refused"]:
                    # the end of the record itself may be refused only by rounding of (N-1)*dt: knife edge
                    if qe == 4 * (n - 1):
                        run.ties += 1
                        continue
                    run.violation(f"trim:{what}:refused-valid", f"{what}.trim({qs}/(4*{fs}), {qe}/(4*{fs})) on {n} samples raised IndexError; allowed {allowed}", rep)
                continue
            a = get()
            got = (int(a[0]), int(a[-1])) if len(a) else (-1, -1)
            if c["refused"]:
                if qe == 4 * (n - 1) + 0 or (qs < qe and qe > 4 * (n - 1) and qe - 4 * (n - 1) < 1 and False):
                    pass
                run.violation(f"trim:{what}:accepted-invalid", f"{what}.trim({qs}/(4*{fs}), {qe}/(4*{fs})) on {n} samples (duration {(n-1)}/{fs} s) was accepted, kept {got}", rep)
                continue
            if got not in allowed or not np.array_equal(a, ramp[got[0]:got[1] + 1]):
                run.violation(f"trim:{what}:wrong-samples", f"{what}.trim({qs}/(4*{fs}), {qe}/(4*{fs})) on {n} samples kept {got}, allowed {allowed}", rep)
            if what == "SeismicRecording3C" and not (np.array_equal(o.ns.amplitude, a) and np.array_equal(o.ew.amplitude - 100, a)):
                run.violation("trim:SeismicRecording3C:components-differ", f"components trimmed differently for {rep}", rep)
        nt = (n, fs, qs, qe) if not c["refused"] and len(allowed) == 1 else None
        run.case(nt, sample=dict(n=n, fs=fs, start=start, end=end, keeps=c["allowed"]) if nt and fs == 75 and len(run.samples) < 2 else None)


def trim_twice(run, h, cases):
    """A trimmed record is a record again (its time axis restarts at 0): case A followed, on the SAME object, by a case B of the
    specification for a record with as many samples as A keeps - composition of the single-trim relation."""
    rng = np.random.RandomState(run.seed + 18)
    by = {}
    for c in cases:
        by.setdefault((c["n"], c["fs"]), []).append(c)
    firsts = [c for c in cases if not c["refused"] and len(c["allowed"]) == 1 and c["allowed"][0][0] > 0]
    rng.shuffle(firsts)
    done = 0
    for A in firsts:
        a0, a1 = A["allowed"][0]
        seconds = [c for c in by.get((a1 - a0 + 1, A["fs"]), []) if c["refused"] or len(c["allowed"]) == 1]
        if not seconds:
            continue
        for B in [seconds[i] for i in rng.choice(len(seconds), min(3, len(seconds)), replace=False)]:
            if B["qe"] == 4 * (B["n"] - 1):
                continue        # knife edge of the record end (see the single-trim cases)
            fs, n = A["fs"], A["n"]
            dt = 1.0 / fs
            ramp = np.arange(n, dtype=float)
            for what in ("TimeSeries", "SeismicRecording3C"):
                o = h.TimeSeries(ramp, dt) if what == "TimeSeries" else h.SeismicRecording3C(h.TimeSeries(ramp, dt), h.TimeSeries(ramp, dt), h.TimeSeries(ramp, dt))
                get = (lambda: o.amplitude) if what == "TimeSeries" else (lambda: o.vt.amplitude)
                rep = dict(kind="trim-twice", n=n, fs=fs, first=[A["qs"], A["qe"]], second=[B["qs"], B["qe"]])
                o.trim(float(Fraction(A["qs"], 4 * fs)), float(Fraction(A["qe"], 4 * fs)))
                try:
                    o.trim(float(Fraction(B["qs"], 4 * fs)), float(Fraction(B["qe"], 4 * fs)))
                    refused = False
                except IndexError:
                    refused = True
                a = get()
                got = (int(a[0]), int(a[-1])) if len(a) else (-1, -1)
                if B["refused"]:
                    want = (a0, a1)
                    if not refused:
                        run.violation(f"trim-twice:{what}:accepted-invalid", f"{what} of {n} samples at {fs} Hz trimmed to samples {a0}..{a1}, then trim({B['qs']}/(4*{fs}), {B['qe']}/(4*{fs})) "
                                      f"on the {a1 - a0 + 1}-sample record was accepted (kept {got})", rep)
                        continue
                else:
                    b0, b1 = B["allowed"][0]
                    want = (a0 + b0, a0 + b1)
                    if refused:
                        run.violation(f"trim-twice:{what}:refused-valid", f"{what}: second trim refused although it lies inside the trimmed record; {rep}", rep)
                        continue
                if got != want:
                    run.violation(f"trim-twice:{what}:wrong-samples", f"{what} of {n} samples at {fs} Hz trimmed to samples {a0}..{a1}, then trim({B['qs']}/(4*{fs}), {B['qe']}/(4*{fs})): "
                                  f"kept original samples {got[0]}..{got[1]}, the trimmed record's own time axis gives {want[0]}..{want[1]}", rep)
            run.case(("trim-twice", n, fs, A["qs"], A["qe"], B["qs"], B["qe"]))
            done += 1
        if done >= (300 if run.quick else 3000):
            break
    run.notes["trim_pairs"] = done


class Driver:
    def __init__(self, h, rng, wd):
        self.h, self.rng, self.wd = h, rng, wd
        # 100 Hz, or 75 Hz whose sampling interval has no short decimal form (the time step must persist exactly)
        self.dt = [0.01, 1.0 / 75.0][rng.randint(2)]
        self.w = World()
        self.live = {}      # id -> python object
        self.kind = {}
        self.files = {}
        self.n = 0
        self.events = []
        self.failed = None

    def nid(self, p):
        self.n += 1
        return f"{p}{self.n}"

    def log(self, op, roles, new, fn, **args):
        pre = self.w.snapshot()
        try:
            out = fn()
        except Exception as e:     # the operation is valid by construction: a failure is reported, not hidden
            self.failed = (op, roles, args, f"{type(e).__name__}: {e}")
            out = None
            for i in new:
                self.w.remove(i); self.live.pop(i, None); self.kind.pop(i, None)
            new = []
        post = self.w.snapshot()
        self.events.append(dict(op=op, roles=roles, new=new, pre=pre, post=post, **args))
        return out

    def pick(self, kind):
        c = [i for i, k in self.kind.items() if k == kind]
        return c[self.rng.randint(len(c))] if c else None

    def step(self, op=None, force=None):
        h, rng = self.h, self.rng
        force = force or {}
        ops = ["NewArr", "NewTs", "NewRec", "CopyRec", "CopyRec", "CopyTs", "Split", "SplitTs", "TsInPlace", "InPlace", "InPlace", "InPlace", "InPlace",
               "Edit", "Edit", "Edit", "Save", "Save", "Load", "Load"]
        op = op or ops[rng.randint(len(ops))]
        if op == "NewArr" or not self.live:
            n = int(rng.choice([48, 64, 96]))
            ids = [self.nid("a") for _ in range(3)]

            Driver.n_newarr = getattr(Driver, "n_newarr", 0) + 1
            flavour = Driver.n_newarr % 3

            def f():
                for j, i in enumerate(ids):
                    a = rng.normal(size=n)
                    if flavour == 1:
                        # raw digitizer counts: whole numbers held as float64 - with a negative zero among them (the sign of a
                        # zero is part of the sample) and, on one component, counts beyond the 64-bit integer range
                        a = np.round(a * 2.0 ** 16)
                        a[[0, n // 2]] = -0.0
                        if j == 2:
                            a[1::7] = np.round(a[1::7]) * 2.0 ** 52 * 4096.0
                    self.live[i], self.kind[i] = a, "arr"
                    self.w.add(i, "arr", arr_slots(a))
            return self.log("NewArr", {}, ids, f)
        if op == "NewTs":
            a = self.pick("arr")
            if a is None:
                return
            t = self.nid("t")

            def f():
                ts = h.TimeSeries(self.live[a], self.dt)
                self.live[t], self.kind[t] = ts, "ts"
                self.w.add(t, "ts", ts_slots(ts))
            return self.log("NewTs", dict(a=a, t=t), [t], f)
        if op == "NewRec":
            tss = [i for i, k in self.kind.items() if k == "ts"]
            groups = {}
            for i in tss:
                groups.setdefault(self.live[i].n_samples, []).append(i)
            groups = [g for g in groups.values() if len(g) >= 1]
            if not groups:
                return
            g = groups[rng.randint(len(groups))]
            t1, t2, t3 = (g[rng.randint(len(g))] for _ in range(3))
            r = self.nid("r")
            deg = float(force.get("deg", rng.choice([0.0, 15.0, -30.0, 400.0])))

            def f():
                rec = h.SeismicRecording3C(self.live[t1], self.live[t2], self.live[t3], degrees_from_north=deg,
                                           meta={"site": "x", "tags": ["a", 1]})
                self.live[r], self.kind[r] = rec, "rec"
                self.w.add(r, "rec", rec_slots(rec))
            return self.log("NewRec", dict(t1=t1, t2=t2, t3=t3, r=r), [r], f)
        if op == "CopyRec":
            s = self.pick("rec")
            if s is None:
                return
            d = self.nid("r")

            def f():
                rec = h.SeismicRecording3C.from_seismic_recording_3c(self.live[s])
                self.live[d], self.kind[d] = rec, "rec"
                self.w.add(d, "rec", rec_slots(rec))
            return self.log("CopyRec", dict(src=s, dst=d), [d], f)
        if op == "CopyTs":
            s = self.pick("ts")
            if s is None:
                return
            d = self.nid("t")

            def f():
                ts = h.TimeSeries.from_timeseries(self.live[s])
                self.live[d], self.kind[d] = ts, "ts"
                self.w.add(d, "ts", ts_slots(ts))
            return self.log("CopyTs", dict(src=s, dst=d), [d], f)
        if op == "Split":
            s = self.pick("rec")
            if s is None or self.live[s].ns.n_samples < 24:
                return
            kk = int(rng.choice([10, 20]))
            L = kk * self.dt
            nw = int(self.live[s].ns.n_samples / kk)
            ids = [self.nid("r") for _ in range(nw)]

            def f():
                wins = self.live[s].split(L)
                assert len(wins) == len(ids), (len(wins), len(ids))
                for i, wdw in zip(ids, wins):
                    self.live[i], self.kind[i] = wdw, "rec"
                    self.w.add(i, "rec", rec_slots(wdw))
            return self.log("Split", dict(src=s), ids, f)
        if op == "SplitTs":
            s = self.pick("ts")
            if s is None or self.live[s].n_samples < 24:
                return
            kk = int(rng.choice([10, 20]))
            L = kk * self.dt
            nw = int(self.live[s].n_samples / kk)
            ids = [self.nid("t") for _ in range(nw)]

            def f():
                wins = self.live[s].split(L)
                assert len(wins) == len(ids), (len(wins), len(ids))
                for i, wdw in zip(ids, wins):
                    self.live[i], self.kind[i] = wdw, "ts"
                    self.w.add(i, "ts", ts_slots(wdw))
            return self.log("SplitTs", dict(src=s), ids, f)
        if op == "TsInPlace":          # taper / detrend / trim of a bare TimeSeries (e.g. a window of a split)
            o = self.pick("ts")
            if o is None:
                return
            t_ = self.live[o]
            what = str(rng.choice(["taper", "detrend"]))

            def f():
                if what == "taper":
                    t_.window("tukey", 0.5)
                else:
                    t_.detrend("constant")
            return self.log("InPlaceTs", dict(o=o), [], f, what=what)
        if op == "InPlace":
            o = self.pick("rec")
            if o is None:
                return
            rec = self.live[o]
            what = str(force.get("what", rng.choice(["trim", "filter", "detrend", "taper", "orient"])))
            if what == "trim" and rec.ns.n_samples < 12:
                what = "detrend"
            if what == "filter" and rec.ns.n_samples < 40:      # sosfiltfilt needs more samples than its padding (33)
                what = "taper"

            def f():
                with warnings.catch_warnings():
                    warnings.simplefilter("ignore")
                    if what == "trim":
                        dur = (rec.ns.n_samples - 1) * self.dt
                        rec.trim(self.dt * rng.randint(0, 3), dur - self.dt * rng.randint(0, 3))
                    elif what == "filter":
                        rec.butterworth_filter([[2.0, None], [None, 20.0], [2.0, 20.0]][rng.randint(3)])
                    elif what == "detrend":
                        rec.detrend(type=str(rng.choice(["linear", "constant"])))
                    elif what == "taper":
                        rec.window("tukey", float(rng.choice([0.1, 0.5, 1.0])))
                    else:
                        rec.orient_sensor_to(float(force.get("angle", rng.choice([0.0, 45.0, -30.0, 90.0, 400.0, 37.5]))))
            return self.log("InPlace", dict(o=o), [], f, what=what)
        if op == "Edit":
            cands = [i for i, k in self.kind.items() if k in ("arr", "ts", "rec")]
            o = cands[rng.randint(len(cands))]
            k = self.kind[o]
            slot = 1 if k != "rec" else int(rng.randint(1, 4))

            def f():
                obj = self.live[o]
                a = obj if k == "arr" else (obj.amplitude if k == "ts" else getattr(obj, ("ns", "ew", "vt")[slot - 1]).amplitude)
                a[int(rng.randint(len(a)))] += 1.5
            return self.log("Edit", dict(o=o), [], f, slot=slot)
        if op == "Save":
            s = self.pick("rec")
            if s is None:
                return
            fid = self.nid("f")
            fn = os.path.join(self.wd, f"{fid}.json")

            def f():
                self.live[s].save(fn)
                data = json.load(open(fn))
                self.live[fid], self.kind[fid] = fn, "file"

                def slots(data=data):
                    return [(None, np.array(data["ns_amplitude"], dtype=np.double)), (None, np.array(data["ew_amplitude"], dtype=np.double)),
                            (None, np.array(data["vt_amplitude"], dtype=np.double)), (None, [data["dt_in_seconds"]] * 3),
                            (None, float(data["degrees_from_north"]) % 360.0), (None, heaplog.meta_content(data["meta"]), True)]
                self.w.add(fid, "file", slots)
            return self.log("Save", dict(src=s, f=fid), [fid], f)
        if op == "Load":
            fid = self.pick("file")
            if fid is None:
                return
            d = self.nid("r")

            def f():
                rec = h.SeismicRecording3C.load(self.live[fid])
                self.live[d], self.kind[d] = rec, "rec"
                self.w.add(d, "rec", rec_slots(rec))
            return self.log("Load", dict(f=fid, dst=d), [d], f)


def histories(run, h):
    rng = np.random.RandomState(run.seed + 18)
    wd = workdir("C18")
    ntr, nsteps = (60, 9) if run.quick else (1500, 11)
    traces = []
    for t in range(ntr):
        d = Driver(h, rng, wd)
        for op in ("NewArr", "NewTs", "NewTs", "NewTs"):
            d.step(op)
        if t % 4 == 1:
            # a sensor deployed at an angle, turned to exactly 0 degrees (the default target of the preprocessing), saved and loaded:
            # the orientation 0 is a value like any other
            d.step("NewRec", force=dict(deg=(15.0, -30.0, 400.0)[(t // 4) % 3]))
            d.step("InPlace", force=dict(what="orient", angle=0.0))
            d.step("Save")
            d.step("Load")
        else:
            d.step("NewRec")
        for _ in range(nsteps):
            d.step()
            if len(d.live) > 16 or d.failed:
                break
        if d.failed:
            op, roles, args, msg = d.failed
            run.violation(f"heap:{op}:raised", f"history {t+1}: {op} {args} roles={roles} raised {msg} after {[e['op'] for e in d.events]}",
                          dict(kind="heap-raise", ops=[e["op"] for e in d.events]))
        traces.append(dict(ev=d.events))
    acc, res = heaplog.validate("TraceRecordingHeap", traces, "trace-C18", timeout=3000)
    run.add_tlc(res, "TraceRecordingHeap: every recorded step against the storage/content rules")
    run.traces += len(traces)
    ops = {}
    for i, tr in enumerate(traces, start=1):
        for e in tr["ev"]:
            ops[e["op"]] = ops.get(e["op"], 0) + 1
        run.case(("hist", i) if len(tr["ev"]) >= 5 else None, replayed=False)
        if i not in acc:
            ndiag = run.notes.get("diagnosed", 0)
            run.notes["diagnosed"] = ndiag + 1
            k = heaplog.diagnose("TraceRecordingHeap", tr, "trace-C18") if ndiag < 8 else 1
            e = tr["ev"][min(k, len(tr["ev"])) - 1]
            run.violation(f"heap:{e['op']}" + (f":{e.get('what')}" if e.get("what") else ""),
                          f"history {i}: step {k} {e['op']} {e.get('what', '')} roles={e['roles']} is not allowed by the specification "
                          f"(storage shared, a bystander changed, or contents that must coincide differ); pre={e['pre']} post={e['post']}",
                          dict(kind="heap-trace", trace=tr, step=k))
    if traces and len(run.samples) < 5:
        e = traces[0]["ev"][min(3, len(traces[0]["ev"]) - 1)]
        run.samples.append(dict(history_step=dict(op=e["op"], roles=e["roles"], new=e["new"], post=e["post"])))
    run.notes["history_ops"] = ops
    # binding demonstration: a corrupted trace must be rejected
    bad = copy.deepcopy(traces[0])
    for e in bad["ev"]:
        if e["op"] in ("CopyRec", "Load", "NewRec", "NewTs", "CopyTs"):
            o = e["new"][0]
            e["post"][o]["slots"][0][1] += 100000
            break
    else:
        bad["ev"][0]["post"][bad["ev"][0]["new"][0]]["slots"][0][0] = 1 if len(bad["ev"][0]["new"]) > 1 else 0
        if len(bad["ev"][0]["new"]) > 1:
            bad["ev"][0]["post"][bad["ev"][0]["new"][1]]["slots"][0][0] = 1
    acc2, _ = heaplog.validate("TraceRecordingHeap", [bad], "trace-C18-neg", timeout=600)
    run.notes["corrupted_trace_rejected"] = (1 not in acc2)
    if 1 in acc2:
        raise heaplog.MachineryError("a corrupted trace was accepted by TraceRecordingHeap")


def main():
    run = Run("C18")
    h = import_hvsrpy()
    trim_cases(run, h)
    histories(run, h)
    return run.finish(
        rule="every (N, rate, start, end) trim case of spec/Trim.tla on TimeSeries and (a quarter on) SeismicRecording3C; "
             "seeded random histories of construct/copy/split/in-place ops/edits/save/load, each step validated by TLC "
             "against TraceRecordingHeap; non-trivial = unambiguous accepted trim, history of >= 5 steps",
        exhaustive=False)


if __name__ == "__main__":
    sys.path.insert(0, __file__.rsplit("/", 1)[0])
    main_wrapper(main)
