"""C19 - command-line batch output equals the library pipeline for each file.

spec/Cli.tla: the chunked process pool (chunksize = max(1, ntasks div nproc),
consecutive chunks, one unpickled settings object per chunk, any interleaving of
the workers).  TLC proves Independent (every file is processed with the FFT
length it needs alone), ChunksPartition and termination for the property-level
design over every order of every batch and nproc in 1..3, and produces the
counterexample for settings shared inside a chunk (negative configuration).
Binding: the real `hvsrpy` entry point is run on miniSEED batches (100 Hz and
500 Hz files whose windows need 32 768 resp. 65 536 points) for TLC-enumerated
(batch, order, nproc) configurations with the guarded hook recording (pid,
settings id, file, n before, n after) per task; TraceCli validates every run
against the specification, and every <stem>.csv is compared byte for byte with
the file the library pipeline writes for that file alone with freshly loaded
settings.
"""
import json
import os
import subprocess
import sys
import warnings

import numpy as np

from vcommon import Run, tlc, require_tlc_ok, import_hvsrpy, main_wrapper, workdir, REPO, MachineryError
import heaplog

NCLASS = {None: 0, 32768: 1, 65536: 2}
ALL_STEMS = ("big1", "small1", "small2", "saf1", "saf2")


def make_files(h, wd, rng):
    import obspy
    from obspy import Trace, Stream, UTCDateTime
    names = {}
    # small1 (100 Hz) and small2 (50 Hz) need the same FFT length (32 768) but fill it with 12 001 resp. 6 001 samples per window
    for stem, fs in (("big1", 500.0), ("big2", 500.0), ("small1", 100.0), ("small2", 50.0)):
        n = int(245 * fs)
        t = np.arange(n) / fs
        trs = []
        for ch in ("BHN", "BHE", "BHZ"):
            x = (np.sin(2 * np.pi * 2.0 * t + rng.uniform(0, 6)) * (2.0 if ch != "BHZ" else 1.0) + rng.normal(size=n)).astype(np.float32)
            trs.append(Trace(x, header=dict(sampling_rate=fs, channel=ch, station="VRF", network="XX", starttime=UTCDateTime(2020, 1, 1))))
        fn = os.path.join(wd, f"{stem}.mseed")
        Stream(trs).write(fn, format="MSEED")
        names[stem] = f"{stem}.mseed"
    # a file whose second window has identical channels (a flat H/V curve without a peak)
    fs, n = 100.0, int(365 * 100.0)          # three 120-s windows: two ordinary ones and the flat one in the middle
    t = np.arange(n) / fs
    same = rng.normal(size=n).astype(np.float32)
    trs = []
    for ch in ("BHN", "BHE", "BHZ"):
        x = (np.sin(2 * np.pi * 2.0 * t + rng.uniform(0, 6)) * (2.0 if ch != "BHZ" else 1.0) + rng.normal(size=n)).astype(np.float32)
        x[12000:24001] = same[12000:24001]
        trs.append(Trace(x, header=dict(sampling_rate=fs, channel=ch, station="VRF", network="XX", starttime=UTCDateTime(2020, 1, 1))))
    Stream(trs).write(os.path.join(wd, "flat1.mseed"), format="MSEED")
    names["flat1"] = "flat1.mseed"
    # two SAF files (text format with optional header keywords): saf1 carries NORTH_ROT = 30, saf2 has no NORTH_ROT line at all
    for stem, north_rot in (("saf1", 30), ("saf2", None)):
        fs, n = 100.0, 24500
        t = np.arange(n) / fs
        cols = [np.round((np.sin(2 * np.pi * 2.0 * t + rng.uniform(0, 6)) * (2.0 if k < 2 else 1.0) + rng.normal(size=n)) * 1000).astype(int) for k in range(3)]
        lines = ["SESAME ASCII data format (saf) v. 1    (this line must not be modified)", f"SAMP_FREQ = {int(fs)}", f"NDAT = {n:010d}",
                 "START_TIME = 2021 11 22 13 31 10.000", "SENSOR_TYPE = Velocity"]
        if north_rot is not None:
            lines.append(f"NORTH_ROT = {north_rot}")
        lines += ["UNITS = Counts", "CH0_ID = V", "CH1_ID = N", "CH2_ID = E", "####--------------------------------"]
        lines += [f"{cols[2][i]} {cols[0][i]} {cols[1][i]}" for i in range(n)]
        # (a file name is a name, not a pattern: the second SAF file carries square brackets, as instrument software likes to write them)
        fname_ = f"{stem}.saf" if stem == "saf1" else f"{stem}[b].saf"
        with open(os.path.join(wd, fname_), "w") as f_:
            f_.write("\n".join(lines) + "\n")
        names[stem] = fname_
    pre = h.HvsrPreProcessingSettings(window_length_in_seconds=120.0, filter_corner_frequencies_in_hz=[None, None], detrend="linear")
    pro = h.HvsrTraditionalProcessingSettings(smoothing=dict(operator="konno_and_ohmachi", bandwidth=40, center_frequencies_in_hz=np.geomspace(0.5, 20, 16)))
    pre.save(os.path.join(wd, "pre.json"))
    pre2 = h.HvsrPreProcessingSettings(window_length_in_seconds=120.0, filter_corner_frequencies_in_hz=[0.5, 20.0], detrend="linear")
    pre2.save(os.path.join(wd, "pre2.json"))
    pro.save(os.path.join(wd, "pro.json"))
    # second settings variant: the settings FILE carries an explicit fft_settings dictionary (a nested mutable value)
    pro2 = h.HvsrTraditionalSingleAzimuthProcessingSettings(azimuth_in_degrees=30.0, fft_settings={"n": 32768},
                                                           smoothing=dict(operator="log_rectangular", bandwidth=0.2, center_frequencies_in_hz=np.geomspace(0.5, 20, 12)))
    pro2.save(os.path.join(wd, "pro2.json"))
    return names


REF_SCRIPT = """
import sys, warnings
warnings.simplefilter("ignore")
import hvsrpy as h
pre_file, pro_file, fname, out, dist_mc, dist_fn = sys.argv[1:7]
pre = h.read_settings_object_from_file(pre_file)
pro = h.read_settings_object_from_file(pro_file)
res = h.process(h.preprocess(h.read([[fname]]), pre), pro)
h.write_hvsr_object_to_file(res, out, distribution_mc=dist_mc, distribution_fn=dist_fn)
print("N=", pro.fft_settings["n"])
"""


class Refs:
    """What read -> preprocess -> process -> write produce for ONE file ALONE with freshly loaded settings - in a process of its
    own (module-level state left behind by another file must not be able to reach the reference)."""

    def __init__(self, wd):
        self.wd, self.cache = wd, {}

    def key(self, stem, pro_file, dist):
        return (stem, pro_file, tuple(dist))

    def compute(self, k, fname):
        stem, pro_file, dist = k
        pre_file = "pre.json" if pro_file == "pro.json" else "pre2.json"
        out = f"ref_{pre_file}_{pro_file}_{dist[0]}_{dist[1]}_{fname}.csv"
        env = dict(os.environ, PYTHONPATH=REPO, MPLBACKEND="Agg", PYTHONWARNINGS="ignore")
        env.pop("HVSRPY_VERIF_TRACE", None)
        p = subprocess.run([sys.executable, "-c", REF_SCRIPT, pre_file, pro_file, fname, out, dist[0], dist[1]], cwd=self.wd, env=env,
                           stdout=subprocess.PIPE, stderr=subprocess.STDOUT, text=True, timeout=600)
        if p.returncode != 0:
            return ("error", p.stdout[-400:])
        n = [l for l in p.stdout.splitlines() if l.startswith("N=")][-1].split()[-1]
        return (open(os.path.join(self.wd, out), "rb").read(), int(n))

    def prefetch(self, wanted, names):
        import concurrent.futures as cf
        todo = [k for k in wanted if k not in self.cache]
        with cf.ThreadPoolExecutor(6) as ex:
            for k, r in zip(todo, ex.map(lambda k: self.compute(k, names[k[0]]), todo)):
                self.cache[k] = r

    def get(self, stem, pro_file, dist):
        return self.cache[self.key(stem, pro_file, dist)]


def main():
    run = Run("C19")
    h = import_hvsrpy()
    wd = workdir("C19")
    rng = np.random.RandomState(1234)
    # ---- design level ------------------------------------------------------------------------
    pos = "Cli_P" if run.quick else "Cli_P4"
    res = tlc("Cli", pos, timeout=3000, coverage=True)
    require_tlc_ok(res, pos)
    from vcommon import require_coverage
    run.notes["action_coverage"] = require_coverage(res, ["TakeAny", "ProcessAny"], pos)
    run.add_tlc(res, f"{pos}: Independent ChunksPartition Terminates for every order of every batch, nproc 1..3, all interleavings")
    if pos != "Cli_P":
        res = tlc("Cli", "Cli_P", timeout=600)
        require_tlc_ok(res, "Cli_P")
    configs = [c for c in res.cases if isinstance(c, dict) and "nproc" in c]
    nres = tlc("Cli", "Cli_I", timeout=600)
    run.notes["negative_config_shared_chunk_settings_breaks_Independent"] = (nres.violated == "Independent")
    if nres.violated != "Independent":
        raise MachineryError("the shared-settings configuration did not produce the expected counterexample")
    # ---- real CLI --------------------------------------------------------------------------------
    names = make_files(h, wd, rng)
    OUT = {f_: os.path.splitext(names[f_])[0] + ".csv" for f_ in names}             # <stem of the input file>.csv
    STEM_OF = {os.path.splitext(os.path.basename(names[f_]))[0]: f_ for f_ in names}
    refs = Refs(wd)
    sres = tlc("Cli", "Cli_swap", timeout=600)
    run.notes["negative_config_swapped_options_breaks_OptionsReachWriter"] = (sres.violated == "OptionsReachWriter")
    if sres.violated != "OptionsReachWriter":
        raise MachineryError("the swapped-options configuration did not produce the expected counterexample")
    uniq = {}
    optsets = sorted({tuple(c["opts"]) for c in configs})
    for c in configs:
        uniq[(tuple(c["files"]), c["nproc"])] = c
    keys = sorted(uniq)
    # the configurations in which a chunk holds a big file before a small one first, then a seeded sample
    def risky(k):
        files, nproc = k
        cs = max(1, len(files) // nproc)
        chunks = [files[i:i + cs] for i in range(0, len(files), cs)]
        return any(any(a.startswith("big") and b.startswith("small") for i, a in enumerate(ch) for b in ch[i + 1:]) for ch in chunks)

    def risky2(k):      # the longer-window file of the same FFT class before the shorter-window one in one chunk
        files, nproc = k
        cs = max(1, len(files) // nproc)
        chunks = [files[i:i + cs] for i in range(0, len(files), cs)]
        return any("small1" in ch and "small2" in ch and ch.index("small1") < ch.index("small2") for ch in chunks)
    def risky3(k):      # the SAF file with a NORTH_ROT header before the one without, in one chunk
        files, nproc = k
        cs = max(1, len(files) // nproc)
        chunks = [files[i:i + cs] for i in range(0, len(files), cs)]
        return any("saf1" in ch and "saf2" in ch and ch.index("saf1") < ch.index("saf2") for ch in chunks)
    rk = [k for k in keys if risky(k)]
    rk2 = [k for k in keys if risky2(k) and not risky(k)]
    rk3 = [k for k in keys if risky3(k)]
    rest = [k for k in keys if not risky(k) and not risky2(k) and not risky3(k)]
    r2 = np.random.RandomState(run.seed)
    r2.shuffle(rk); r2.shuffle(rk2); r2.shuffle(rk3); r2.shuffle(rest)
    chosen = (rk[:3] + rk2[:2] + rk3[:2] + rest[:1]) if run.quick else (rk[:24] + rk2[:8] + rk3[:8] + rest[:12])
    # batches that do not divide evenly among the workers (5 files on 2 workers, 4 on 3): every file is still processed
    # (larger than the batches TLC enumerates; the recorded schedules are validated against the same specification)
    chosen = chosen + [(("small1", "saf1", "small2", "saf2", "big1"), 2), (("saf2", "small2", "small1", "saf1"), 3)][:2 if run.quick else 2]
    run.notes["configs_saf_header_then_no_header"] = len([k for k in chosen if risky3(k)])
    run.notes["configs_same_fft_class_longer_window_first"] = len([k for k in chosen if risky2(k)])
    runs = []
    env = dict(os.environ, HVSRPY_VERIF="1", PYTHONPATH=REPO, MPLBACKEND="Agg", PYTHONWARNINGS="ignore")

    def plan(ci):
        pro_file = "pro.json" if ci % 2 == 0 else "pro2.json"
        opts = ("lognormal", "lognormal")
        if ci % 3 == 1:     # option values from the specification's OptSets with distribution_mc # distribution_fn
            opts = ("normal", "lognormal") if pro_file == "pro.json" else ("lognormal", "normal")
        return pro_file, opts
    wanted = sorted({refs.key(f, *plan(ci)) for ci, (files, nproc) in enumerate(chosen) for f in files})
    refs.prefetch(wanted, names)
    for k in wanted:
        r = refs.cache[k]
        if r[0] == "error":
            run.violation("cli:reference-pipeline-failed", f"read/preprocess/process/write of {k[0]} alone ({k[1]}, {k[2]}) failed: {r[1]}", dict(kind="cli-ref", key=list(k)))
        elif r[1] != (65536 if k[0].startswith("big") else 32768):
            raise MachineryError(f"instance construction: {k[0]} alone uses n={r[1]}")
    run.notes["reference_pipelines_run_in_own_process"] = len(wanted)
    for ci, (files, nproc) in enumerate(chosen):
        # (the directory is emptied before the FIRST run only: every later run finds the outputs an earlier run wrote there with
        #  other settings / options - the command line is run again in the same directory - and must write what ITS settings give)
        for stem in (ALL_STEMS if ci == 0 else ()):
            try:
                os.remove(os.path.join(wd, OUT[stem]))
            except FileNotFoundError:
                pass
        tf = os.path.join(wd, f"hook_{ci}.txt")
        if os.path.exists(tf):
            os.remove(tf)
        env["HVSRPY_VERIF_TRACE"] = tf
        pro_file, opts = plan(ci)
        dist_opts = []
        if opts != ("lognormal", "lognormal"):
            if opts not in optsets:
                raise MachineryError(f"the option pair {opts} is not among the specification's OptSets {optsets}")
            dist_opts = ["--distribution_mc", opts[0], "--distribution_fn", opts[1]]
        cmd = [sys.executable, "-c", "from hvsrpy.cli import cli; cli()", "--no_figure", "--nproc", str(nproc)] + dist_opts + [
               "--preprocessing_settings_file", "pre.json" if pro_file == "pro.json" else "pre2.json",
               "--processing_settings_file", pro_file] + [names[f] for f in files]
        run.notes["cli_runs_with_distribution_options"] = run.notes.get("cli_runs_with_distribution_options", 0) + (1 if dist_opts else 0)
        p = subprocess.run(cmd, cwd=wd, env=env, stdout=subprocess.PIPE, stderr=subprocess.STDOUT, text=True, timeout=600)
        if p.returncode != 0:
            run.violation("cli:failed", f"hvsrpy CLI exited with {p.returncode} for files={files} nproc={nproc}: {p.stdout[-400:]}",
                          dict(kind="cli", files=files, nproc=nproc))
            continue
        ev = []
        for line in (open(tf) if os.path.exists(tf) else ()):      # (no task started at all: no hook file; judged below)
            pid, sid, fname, nb, na = line.split()
            ev.append(dict(pid=int(pid), sid=int(sid), file=STEM_OF.get(os.path.splitext(os.path.basename(fname))[0], fname), nb=NCLASS.get(None if nb == "None" else int(nb), 9),
                           na=NCLASS.get(None if na == "None" else int(na), 9)))
        # with an explicit n in the settings file every task legitimately starts from class 1 (32 768): class 0/1 coincide
        runs.append(dict(files=list(files), nproc=nproc, opts=list(opts), ev=[dict(file=e["file"], nb=e["nb"], na=e["na"]) for e in ev]))
        key_cfg = f"files={list(files)} nproc={nproc} settings={pro_file} options={dist_opts}"
        for f in files:
            out = os.path.join(wd, OUT[f])
            if not os.path.exists(out):
                run.violation("cli:missing-output", f"{key_cfg}: {f}.csv was not written", dict(kind="cli", files=files, nproc=nproc))
                continue
            got = open(out, "rb").read()
            if got != refs.get(f, pro_file, opts)[0]:
                cs = max(1, len(files) // nproc)
                idx = list(files).index(f)
                chunk = list(files[(idx // cs) * cs:(idx // cs) * cs + cs])
                before = chunk[:chunk.index(f)]
                cls = "after-larger-file-in-same-chunk" if any(b.startswith("big") for b in before) and f.startswith("small") else "other"
                hook = [e for e in ev if e["file"] == f]
                run.violation(f"cli:output-differs:{cls}", f"{key_cfg}: {f}.csv differs from the library pipeline run on that file alone "
                              f"(chunk {chunk}; hook: FFT length class before/after = {[(e['nb'], e['na']) for e in hook]})",
                              dict(kind="cli", files=files, nproc=nproc, file=f))
        run.case((files, nproc) if risky((files, nproc)) else None,
                 sample=dict(files=list(files), nproc=nproc, hook_events=runs[-1]["ev"]) if len(run.samples) < 3 else None)
    # ---- one batch WITH figure creation (the default of the command line): drawing the figure must not change what is written.
    #      flat1 has a window in which the three channels carry the same signal (H/V flat at 1: a window without a peak)
    fig_files = ("flat1", "small1")
    refs.prefetch([refs.key(f, "pro.json", ("lognormal", "lognormal")) for f in fig_files], names)
    for f in fig_files:
        for ext in ("png",):
            try:
                os.remove(os.path.join(wd, f"{f}.{ext}"))
            except FileNotFoundError:
                pass
    env.pop("HVSRPY_VERIF_TRACE", None)
    cmd = [sys.executable, "-c", "from hvsrpy.cli import cli; cli()", "--nproc", "1", "--preprocessing_settings_file", "pre.json",
           "--processing_settings_file", "pro.json"] + [names[f] for f in fig_files]
    p = subprocess.run(cmd, cwd=wd, env=env, stdout=subprocess.PIPE, stderr=subprocess.STDOUT, text=True, timeout=900)
    if p.returncode != 0:
        run.violation("cli:failed:with-figure", f"hvsrpy CLI (figures on) exited with {p.returncode}: {p.stdout[-400:]}", dict(kind="cli-fig"))
    else:
        for f in fig_files:
            out = os.path.join(wd, OUT[f])
            ref = refs.get(f, "pro.json", ("lognormal", "lognormal"))
            if not os.path.exists(out):
                run.violation("cli:missing-output:with-figure", f"figures on: {f}.csv was not written", dict(kind="cli-fig", file=f))
            elif ref[0] != "error" and open(out, "rb").read() != ref[0]:
                run.violation("cli:output-differs:with-figure", f"figures on (no --no_figure), files {list(fig_files)}, --nproc 1: {f}.csv differs from the library "
                              f"pipeline run on that file alone", dict(kind="cli-fig", file=f))
        run.case(("with-figure",))
    run.notes["cli_runs_with_figure"] = 1
    # ---- code -> spec: the recorded schedules against Cli (property tier) ------------------------------
    if runs:
        acc, tres = heaplog.validate("TraceCli", runs, "trace-C19", timeout=900)
        run.add_tlc(tres, "TraceCli: recorded worker schedules (fresh settings per task, chunked completion order)")
        run.traces += len(runs)
        for i, r in enumerate(runs, start=1):
            if i not in acc:
                cls = "fft-length-or-schedule"
                run.violation(f"cli:trace:{cls}", f"files={r['files']} nproc={r['nproc']}: the recorded worker events {r['ev']} are not a behaviour of the "
                              f"specification with fresh settings per task", dict(kind="cli-trace", run=r))
        bad = json.loads(json.dumps(runs[0]))
        bad["ev"][0]["na"] = 3 - bad["ev"][0]["na"] if bad["ev"][0]["na"] in (1, 2) else 1
        acc2, _ = heaplog.validate("TraceCli", [bad], "trace-C19-neg", timeout=300)
        run.notes["corrupted_trace_rejected"] = (1 not in acc2)
        if 1 in acc2:
            raise MachineryError("a corrupted CLI trace was accepted")
    run.notes["cli_runs"] = len(runs)
    run.notes["tasks_started_with_a_stored_fft_length"] = sum(1 for r in runs for e in r["ev"] if e["nb"] != 0)
    return run.finish(
        rule="TLC-enumerated (batch, order, nproc) configurations of 2-3 files (one needing a 65 536-point FFT) run through the real CLI; "
             "every output compared byte-wise with the per-file library pipeline; hook traces validated by TLC; non-trivial = a chunk "
             "holds a large file before a small one",
        exhaustive=False)


if __name__ == "__main__":
    sys.path.insert(0, __file__.rsplit("/", 1)[0])
    main_wrapper(main)
