"""C20 - plots and summary tables are read-only and show the object's state.

States of the HvsrObject state machine (spec/HvsrObject.tla) are reached on real
objects by replaying the TLC transition graph; at sampled states every plotting
/ summary function is called under the Agg backend.  (1) Read-only: the
projected state before and after each call is recorded as a `ReadOnly` event
and the trace is validated by TLC (TraceHvsrObject: UNCHANGED of every object
variable); a deep digest (curves, cached peaks, meta) must be identical too,
also when the function raises.  (2) What is drawn is the state: the artists of
the returned axes are projected to (style class, data) and compared with the
masks / curves of the state and with the exact statistics exported by TLC.
"""
import copy
import hashlib
import json
import sys
import warnings

import numpy as np

from vcommon import Run, import_hvsrpy, main_wrapper
import hvsrobj
from hvsrobj import rat
from check_C05 import ALPHA6

RTOL = 1e-9


def digest(obj):
    h = hashlib.sha256()
    inner = [obj] if not hasattr(obj, "hvsrs") else obj.hvsrs
    for i in inner:
        for arr in (i.frequency, i.amplitude, i._main_peak_frq, i._main_peak_amp,
                    np.asarray(i.valid_window_boolean_mask), np.asarray(i.valid_peak_boolean_mask)):
            h.update(np.ascontiguousarray(arr).tobytes())
        h.update(repr(i._search_range_in_hz).encode())
        h.update(json.dumps(i.meta, sort_keys=True, default=str).encode())
    h.update(json.dumps(obj.meta, sort_keys=True, default=str).encode())
    return h.hexdigest()


def rec_digest(recs):
    h = hashlib.sha256()
    for r in recs:
        for c in ("ns", "ew", "vt"):
            h.update(getattr(r, c).amplitude.tobytes())
            h.update(repr(getattr(r, c).dt_in_seconds).encode())
        h.update(repr(r.degrees_from_north).encode())
        h.update(json.dumps(r.meta, sort_keys=True, default=str).encode())
    return h.hexdigest()


def rgba(c):
    import matplotlib.colors as mc
    return tuple(round(x, 4) for x in mc.to_rgba(c))


class _Styles:
    """How the library draws each kind of artist, read from its public DEFAULT_KWARGS table (so that a change of colours or line
    widths made there is not mistaken for a change of what is shown); the values of the pinned version are the fallback."""
    def load(self, pp):
        d = getattr(pp, "DEFAULT_KWARGS", {})
        g = lambda k, a, v: d.get(k, {}).get(a, v)
        self.lw_acc, self.c_acc = g("individual_valid_hvsr_curve", "linewidth", 0.3), rgba(g("individual_valid_hvsr_curve", "color", "#888888"))
        self.lw_rej, self.c_rej = g("individual_invalid_hvsr_curve", "linewidth", 0.3), rgba(g("individual_invalid_hvsr_curve", "color", "lightpink"))
        self.lw_mean, self.c_mean, self.ls_mean = g("mean_hvsr_curve", "linewidth", 1.3), rgba(g("mean_hvsr_curve", "color", "black")), g("mean_hvsr_curve", "linestyle", "-")
        self.lw_std, self.c_std, self.ls_std = (g("nth_std_mean_hvsr_curve", "linewidth", 1.3), rgba(g("nth_std_mean_hvsr_curve", "color", "black")),
                                                g("nth_std_mean_hvsr_curve", "linestyle", "--"))
        self.m_mean = g("peak_mean_hvsr_curve", "marker", "D")
        self.m_2d = g("peak_mean_hvsr_curve_azimuthal_2d", "marker", "s")
        self.m_ind = g("peak_individual_valid_hvsr_curve", "marker", "o")
        self.face_acc = g("peak_individual_valid_hvsr_curve", "markerfacecolor", "white")
        self.face_rej = g("peak_individual_invalid_hvsr_curve", "markerfacecolor", "lightpink")

    def acc(self, ln):
        return ln.get_linewidth() == self.lw_acc and rgba(ln.get_color()) == self.c_acc

    def rej(self, ln):
        return ln.get_linewidth() == self.lw_rej and rgba(ln.get_color()) == self.c_rej

    def mean(self, ln):
        return ln.get_linewidth() == self.lw_mean and rgba(ln.get_color()) == self.c_mean and ln.get_linestyle() == self.ls_mean

    def std(self, ln):
        return ln.get_linewidth() == self.lw_std and rgba(ln.get_color()) == self.c_std and ln.get_linestyle() == self.ls_std


STY = _Styles()


class PlotHook:
    def __init__(self, run, hvsrpy, na, stride):
        import matplotlib
        matplotlib.use("Agg")
        import matplotlib.pyplot as plt
        self.plt = plt
        self.run, self.h, self.na, self.stride = run, hvsrpy, na, stride
        self.count = 0
        self.calls = 0
        self.traces = []
        self.trace_meta = []
        self.captured = []
        import hvsrpy.postprocessing as pp
        self.pp = pp
        STY.load(pp)
        pp.display = lambda s: self.captured.append(s)
        ts = hvsrpy.TimeSeries
        x = np.sin(np.arange(40) * 0.7)
        # (the recordings are deployed at non-zero angles: a plot must not re-orient what it is given)
        self.recs = [hvsrpy.SeismicRecording3C(ts(x * (w + 1), 0.01), ts(x[::-1] * (w + 1), 0.01), ts(x * 0.5, 0.01), degrees_from_north=(30.0, 215.0, 0.0)[w]) for w in range(3)]

    def fail(self, key, msg, sline, cv, inst):
        self.run.violation(f"plot:{key}:{'azimuthal' if self.na > 1 else 'traditional'}",
                           f"{msg} | instance {inst.name()} cv={cv} state={sline['s']}",
                           dict(kind="plot", cv=cv, state=sline["s"], inst=inst.name(), na=self.na))

    def guarded(self, name, fn, real, obj, sline, cv, events, allow=(ValueError, ZeroDivisionError)):
        """Call fn(); record a ReadOnly event; the object must be unchanged whether or not fn raises."""
        inst = real.inst
        d0 = digest(obj)
        out, err = None, None
        try:
            with warnings.catch_warnings():
                warnings.simplefilter("ignore")
                out = fn()
        except allow as e:
            err = e
        except Exception as e:      # noqa
            err = e
            self.fail(f"{name}:exception", f"{name} raised {type(e).__name__}: {e}", sline, cv, inst)
        self.calls += 1
        events.append(dict(op="ReadOnly", t=real.project(obj)))
        if digest(obj) != d0:
            how = "after raising " + type(err).__name__ if err is not None else "on return"
            self.fail(f"{name}:mutates-object" + (":on-exception" if err is not None else ""),
                      f"{name} changed the object it was given ({how})", sline, cv, inst)
        return out, err

    def __call__(self, real, obj, sline, cv):
        self.count += 1
        if self.count % self.stride:
            return
        inst = real.inst
        s = sline["s"]
        events = []
        p0 = real.project(obj)
        plt = self.plt
        dm, df = inst.dist_a, inst.dist_f
        # (the alias "log-normal" is passed for the mean-curve distribution only: for distribution_fn the figures and the table look up
        #  their labels by the literal name and raise KeyError / UnboundLocalError for the alias - an observation, not judged: no property
        #  says which spellings the plotting functions accept)
        df = "lognormal" if df == "log-normal" else df
        inner = real.inner(obj)
        # ---- single panel, everything switched on ---------------------------------------------
        out, err = self.guarded("plot_single_panel_hvsr_curves",
                                lambda: self.h.plot_single_panel_hvsr_curves(
                                    obj, distribution_mc=dm, distribution_fn=df, plot_invalid_curves=True,
                                    plot_peak_individual_invalid_curves=True), real, obj, sline, cv, events)
        if out is not None:
            fig, ax = out
            self.check_single_panel(ax, obj, inner, sline, cv, inst, dm, df)
        plt.close("all")
        # ---- summary table -----------------------------------------------------------------------
        self.captured.clear()
        out, err = self.guarded("summarize_hvsr_statistics",
                                lambda: self.h.summarize_hvsr_statistics(obj, distribution_mc=dm, distribution_fn=df),
                                real, obj, sline, cv, events)
        if err is None and self.captured:
            self.check_summary(self.captured[-1], obj, sline, cv, inst, df)
        if self.na == 1:
            d_r = rec_digest(self.recs)
            out, err = self.guarded("plot_pre_and_post_rejection",
                                    lambda: self.h.plot_pre_and_post_rejection(self.recs, obj, distribution_mc=dm, distribution_fn=df),
                                    real, obj, sline, cv, events)
            if out is not None:
                fig, axs = out
                ax_before, ax_after = axs[1], axs[3]
                nb = sum(1 for ln in ax_before.get_lines() if STY.acc(ln))
                if nb != len(s["vw"][0]):
                    self.fail("prepost:before-count", f"'before rejection' panel shows {nb} curves, the object has {len(s['vw'][0])}", sline, cv, inst)
                na_ = sum(1 for ln in ax_after.get_lines() if STY.acc(ln))
                nr_ = sum(1 for ln in ax_after.get_lines() if STY.rej(ln))
                if (na_, nr_) != (sum(s["vw"][0]), len(s["vw"][0]) - sum(s["vw"][0])):
                    self.fail("prepost:after-count", f"'after rejection' panel shows {na_} accepted / {nr_} rejected curves", sline, cv, inst)
                self.check_prepost_markers(ax_before, ax_after, inner[0], lambda k_, m_: self.fail(k_, m_, sline, cv, inst))
                # waveform panels: one line per window and component, styled by the window mask
                for axw in (axs[0], axs[2], axs[4]):
                    cols = [rgba(ln.get_color()) == STY.c_acc for ln in axw.get_lines()]
                    if cols != s["vw"][0]:
                        self.fail("prepost:waveform-style", f"waveform panel styles {cols} do not follow the window mask", sline, cv, inst)
            if rec_digest(self.recs) != d_r:
                self.fail("prepost:mutates-recordings", "plot_pre_and_post_rejection changed the recordings", sline, cv, inst)
            plt.close("all")
            d_r = rec_digest(self.recs)
            out, err = self.guarded("plot_seismic_recordings_3c",
                                    lambda: self.h.plot_seismic_recordings_3c(self.recs, valid_window_boolean_mask=s["vw"][0]),
                                    real, obj, sline, cv, events)
            if rec_digest(self.recs) != d_r:
                self.fail("waveforms:mutates-recordings", "plot_seismic_recordings_3c changed the recordings", sline, cv, inst)
            plt.close("all")
        else:
            for name, fn in (("plot_azimuthal_contour_2d", lambda: self.h.plot_azimuthal_contour_2d(obj, distribution_mc=dm)),
                             ("plot_azimuthal_contour_3d", lambda: self.h.plot_azimuthal_contour_3d(obj, distribution_mc=dm)),
                             ("plot_azimuthal_summary", lambda: self.h.plot_azimuthal_summary(obj, distribution_mc=dm, distribution_fn=df))):
                out, err = self.guarded(name, fn, real, obj, sline, cv, events, allow=(ValueError, ZeroDivisionError, TypeError, AttributeError))
                if name == "plot_azimuthal_contour_2d" and out is not None and all(a["ncv"] >= 2 for a in sline["az"]):
                    fig, (ax, cax) = out
                    mk = [ln for ln in ax.get_lines() if ln.get_marker() == STY.m_2d]
                    if len(mk) != 1:
                        self.fail("contour2d:markers", f"{len(mk)} mean-curve-peak marker artists", sline, cv, inst)
                    else:
                        fx = [inst.idx(float(v)) for v in mk[0].get_xdata()]
                        for a_, (gi, az) in enumerate(zip(fx, sline["az"])):
                            if gi not in az["mcp"]:
                                self.fail("contour2d:peak", f"marker of azimuth {a_} at grid index {gi}, allowed {az['mcp']}", sline, cv, inst)
                        if list(mk[0].get_ydata()) != list(obj.azimuths):
                            self.fail("contour2d:azimuths", f"markers at azimuths {list(mk[0].get_ydata())}", sline, cv, inst)
                if name == "plot_azimuthal_contour_3d" and out is not None and all(a["ncv"] >= 2 for a in sline["az"]):
                    # the 3-D markers: the mean-curve peak of every azimuth, and the FIRST azimuth once more at 180 degrees
                    fig, ax = out
                    sc = [c_ for c_ in ax.collections if hasattr(c_, "_offsets3d") and len(c_._offsets3d[0]) == len(obj.azimuths) + 1]
                    try:
                        fpk, apk = obj.mean_curve_peak_by_azimuth(distribution=dm)
                    except Exception:
                        fpk = None
                    if fpk is not None:
                        if len(sc) != 1:
                            self.fail("contour3d:markers", f"{len(sc)} peak-marker collections with {len(obj.azimuths) + 1} points", sline, cv, inst)
                        else:
                            xs, ys, zs = (np.asarray(v, dtype=float) for v in sc[0]._offsets3d)
                            want = (np.log10(np.array([*fpk, fpk[0]])), np.array([*obj.azimuths, 180.0]), np.array([*apk, apk[0]]) * 1.05)
                            if not (np.allclose(xs, want[0], rtol=1e-12) and np.allclose(ys, want[1]) and np.allclose(zs, want[2], rtol=1e-12)):
                                self.fail("contour3d:peaks", f"3-D peak markers (log f, azimuth, amplitude) {xs.tolist()}, {ys.tolist()}, {zs.tolist()} are not the "
                                          f"per-azimuth mean-curve peaks closed at 180 degrees with the first azimuth", sline, cv, inst)
                plt.close("all")
        self.traces.append(dict(cv=cv, s0=p0, ev=events))
        self.trace_meta.append((cv, s, inst.name()))

    @staticmethod
    def check_prepost_markers(ax_before, ax_after, trad, fail):
        """peak markers of the two HVSR panels against the object's OWN per-window peaks and masks:
        before = every window that has a peak, drawn as accepted; after = by the peak mask"""
        def marks(ax, face):
            return sorted((float(x), float(y)) for ln in ax.get_lines() if ln.get_marker() == STY.m_ind and rgba(ln.get_markerfacecolor()) == rgba(face)
                          for x, y in zip(ln.get_xdata(), ln.get_ydata()) if not np.isnan(x))
        frq, amp = np.asarray(trad._main_peak_frq, dtype=float), np.asarray(trad._main_peak_amp, dtype=float)
        has = ~np.isnan(frq)
        vp = np.asarray(trad.valid_peak_boolean_mask, dtype=bool)
        want_before = sorted((float(f), float(a)) for f, a, h_ in zip(frq, amp, has) if h_)
        white, pink = STY.face_acc, STY.face_rej
        if marks(ax_before, white) != want_before or marks(ax_before, pink):
            fail("prepost:before-peaks", f"'before rejection' peak markers {marks(ax_before, white)} (+ rejected-style {marks(ax_before, pink)}) "
                                         f"are not the object's window peaks {want_before}")
        want_a = sorted((float(f), float(a)) for f, a, h_, v in zip(frq, amp, has, vp) if h_ and v)
        want_r = sorted((float(f), float(a)) for f, a, h_, v in zip(frq, amp, has, vp) if h_ and not v)
        if marks(ax_after, white) != want_a or marks(ax_after, pink) != want_r:
            fail("prepost:after-peaks", f"'after rejection' peak markers accepted {marks(ax_after, white)} / rejected {marks(ax_after, pink)} "
                                        f"are not the object's {want_a} / {want_r}")

    # ------------------------------------------------------------------------------------------
    def check_single_panel(self, ax, obj, inner, sline, cv, inst, dm, df):
        s = sline["s"]
        lines = ax.get_lines()
        thin = [ln for ln in lines if (STY.acc(ln) or STY.rej(ln)) and ln.get_marker() in ("None", "", None)]
        acc = [ln for ln in thin if STY.acc(ln)]
        rej = [ln for ln in thin if STY.rej(ln) and not STY.acc(ln)]
        want_acc = [tuple(i.amplitude[w]) for i, m in zip(inner, s["vw"]) for w in range(len(m)) if m[w]]
        want_rej = [tuple(i.amplitude[w]) for i, m in zip(inner, s["vw"]) for w in range(len(m)) if not m[w]]
        got_acc = [tuple(ln.get_ydata()) for ln in acc]
        got_rej = [tuple(ln.get_ydata()) for ln in rej]
        if sorted(got_acc) != sorted(want_acc):
            self.fail("panel:accepted-curves", f"{len(got_acc)} accepted-style lines do not carry the {len(want_acc)} accepted curves", sline, cv, inst)
        if sorted(got_rej) != sorted(want_rej):
            self.fail("panel:rejected-curves", f"{len(got_rej)} rejected-style lines do not carry the {len(want_rej)} rejected curves", sline, cv, inst)
        for ln in thin:
            if not np.array_equal(ln.get_xdata(), obj.frequency):
                self.fail("panel:frequency", "a curve is not drawn against the object's frequency vector", sline, cv, inst)
        st = sline["az"][0] if self.na == 1 else sline["w"]
        okc = (st["ncv"] >= 2) if self.na == 1 else st["okc"]
        okf = (st["nfn"] >= 2) if self.na == 1 else st["ok"]
        thick = [ln for ln in lines if STY.mean(ln) or STY.std(ln)]
        if okc:
            mc = np.array([inst.a_mean(rat(m)) for m in st["mc"]])
            up = np.array([inst.a_nth(rat(m), rat(v), 1) for m, v in zip(st["mc"], st["vc"])])
            dn = np.array([inst.a_nth(rat(m), rat(v), -1) for m, v in zip(st["mc"], st["vc"])])
            solid = [ln for ln in thick if STY.mean(ln)]
            dashed = [ln for ln in thick if STY.std(ln)]
            if len(solid) != 1 or not np.allclose(solid[0].get_ydata(), mc, rtol=RTOL, atol=1e-12):
                self.fail("panel:mean-curve", f"mean-curve line {[list(l.get_ydata()) for l in solid]} is not the exact mean curve {mc.tolist()}", sline, cv, inst)
            ok_d = len(dashed) == 2 and ((np.allclose(dashed[0].get_ydata(), up, rtol=RTOL, atol=1e-12) and np.allclose(dashed[1].get_ydata(), dn, rtol=RTOL, atol=1e-12)) or
                                         (np.allclose(dashed[1].get_ydata(), up, rtol=RTOL, atol=1e-12) and np.allclose(dashed[0].get_ydata(), dn, rtol=RTOL, atol=1e-12)))
            if not ok_d:
                self.fail("panel:std-curves", "the two dashed lines are not the exact +-1 standard deviation curves", sline, cv, inst)
            dia = [ln for ln in lines if ln.get_marker() == STY.m_mean]
            if len(dia) != 1:
                self.fail("panel:mean-peak-marker", f"{len(dia)} mean-curve-peak markers", sline, cv, inst)
            else:
                gi = inst.idx(float(dia[0].get_xdata()[0]))
                mcp = st["mcp"]
                if gi not in mcp:
                    self.fail("panel:mean-peak-marker", f"mean-curve-peak marker at grid index {gi}, allowed {mcp}", sline, cv, inst)
                elif not np.isclose(dia[0].get_ydata()[0], mc[gi - 1], rtol=RTOL):
                    self.fail("panel:mean-peak-marker", "mean-curve-peak marker amplitude is not the mean curve's value", sline, cv, inst)
        # individual peak markers: accepted (white) and rejected (lightpink) by the peak mask
        circ = [ln for ln in lines if ln.get_marker() == STY.m_ind]
        want_a = sorted((float(i._main_peak_frq[w]), float(i._main_peak_amp[w])) for i, m, p in zip(inner, s["vp"], s["pk"]) for w in range(len(m)) if m[w] and p[w] != 0)
        want_r = sorted((float(i._main_peak_frq[w]), float(i._main_peak_amp[w])) for i, m, p in zip(inner, s["vp"], s["pk"]) for w in range(len(m)) if not m[w] and p[w] != 0)
        got_a = sorted((float(x), float(y)) for ln in circ if rgba(ln.get_markerfacecolor()) == rgba(STY.face_acc) for x, y in zip(ln.get_xdata(), ln.get_ydata()) if not np.isnan(x))
        got_r = sorted((float(x), float(y)) for ln in circ if rgba(ln.get_markerfacecolor()) == rgba(STY.face_rej) for x, y in zip(ln.get_xdata(), ln.get_ydata()) if not np.isnan(x))
        if got_a != want_a:
            self.fail("panel:accepted-peaks", f"accepted peak markers {got_a} differ from the accepted peaks {want_a}", sline, cv, inst)
        if got_r != want_r:
            self.fail("panel:rejected-peaks", f"rejected peak markers {got_r} differ from the rejected peaks {want_r}", sline, cv, inst)
        if okf:
            band = [p for p in ax.patches]
            if len(band) != 1:
                self.fail("panel:fn-band", f"{len(band)} fn +-1 std patches", sline, cv, inst)
            else:
                xs = sorted(set(float(v) for v in band[0].get_xy()[:, 0]))
                lo_, hi_ = inst.f_nth(rat(st["mf"]), rat(st["vf"]), -1), inst.f_nth(rat(st["mf"]), rat(st["vf"]), 1)
                if not (np.isclose(xs[0], lo_, rtol=RTOL) and np.isclose(xs[-1], hi_, rtol=RTOL)):
                    self.fail("panel:fn-band", f"fn band spans {xs[0]}..{xs[-1]}, exact -1/+1 std values are {lo_}..{hi_}", sline, cv, inst)

    def check_summary(self, styler, obj, sline, cv, inst, df):
        st = sline["az"][0] if self.na == 1 else sline["w"]
        okf = (st["nfn"] >= 2) if self.na == 1 else st["ok"]
        if not okf:
            return
        tab = styler.data.to_numpy(dtype=float)
        mf, vf, ma, va = rat(st["mf"]), rat(st["vf"]), rat(st["ma"]), rat(st["va"])
        if inst.fenc != inst.aenc:
            rows = [0, 1]          # the amplitude row uses distribution_fn on a differently encoded amplitude: not exact
        else:
            rows = [0, 1, 2]
        exp = np.full((3, 4), np.nan)
        exp[0] = [inst.f_mean(mf), inst.f_std(vf), inst.f_nth(mf, vf, -1), inst.f_nth(mf, vf, 1)]
        if df == "lognormal":
            exp[1] = [1 / inst.f_mean(mf), inst.f_std(vf), 1 / inst.f_nth(mf, vf, -1), 1 / inst.f_nth(mf, vf, 1)]
        exp[2] = [inst.a_mean(ma), inst.a_std(va), inst.a_nth(ma, va, -1), inst.a_nth(ma, va, 1)]
        for r in rows:
            if not np.allclose(tab[r], exp[r], rtol=RTOL, atol=1e-12, equal_nan=True):
                self.fail(f"summary:row{r}", f"summary table row {r} = {tab[r].tolist()}, exact statistics {exp[r].tolist()}", sline, cv, inst)


def kwargs_objects(run, hvsrpy, hook):
    """What is drawn is the OBJECT's state also when that state was produced with non-default find_peaks_kwargs
    (a narrow high spike and a broad lower bump: width=2 selects the bump) and a search range: the figures are
    called, the object must be unchanged and the markers must be its own cached peaks."""
    plt = hook.plt
    f = np.geomspace(0.5, 20, 14)
    rows = []
    for w in range(4):
        a = np.ones(14)
        a[2 + (w % 2)] = 6.0 + w                    # spike, one sample wide
        a[7:12] = [2.0, 3.0, 3.5 + 0.1 * w, 3.0, 2.0]    # bump
        rows.append(a)
    ts = hvsrpy.TimeSeries
    x = np.sin(np.arange(40) * 0.7)
    recs = [hvsrpy.SeismicRecording3C(ts(x * (w + 1), 0.01), ts(x[::-1] * (w + 1), 0.01), ts(x * 0.5, 0.01)) for w in range(4)]
    n = 0
    for kwargs, rng_ in ((dict(width=2), (None, None)), (dict(width=2), (1.0, 18.0)), (dict(prominence=3.0), (None, None)), (None, (None, 3.0))):
        for masks in ([True] * 4, [True, False, True, True], [False, True, True, False]):
            obj = hvsrpy.HvsrTraditional(f, np.array(rows))
            obj.update_peaks_bounded(search_range_in_hz=rng_, find_peaks_kwargs=kwargs)
            default = hvsrpy.HvsrTraditional(f, np.array(rows))
            default.update_peaks_bounded(search_range_in_hz=rng_)
            obj.valid_window_boolean_mask = np.array(masks) & np.asarray(obj.valid_window_boolean_mask)
            obj.valid_peak_boolean_mask = np.array(masks) & np.asarray(obj.valid_peak_boolean_mask)
            differs = not np.array_equal(obj._main_peak_frq, default._main_peak_frq, equal_nan=True)
            d0 = digest(obj)
            label = f"find_peaks_kwargs={kwargs} range={rng_} masks={masks}"
            rep = dict(kind="plot-kwargs", kwargs=kwargs, range=rng_, masks=masks)

            def fail(key, msg):
                run.violation(f"plot:{key}:kwargs-object", f"{msg} | {label}", rep)
            for name, fn in (("plot_single_panel_hvsr_curves", lambda: hvsrpy.plot_single_panel_hvsr_curves(obj, plot_invalid_curves=True, plot_peak_individual_invalid_curves=True)),
                             ("summarize_hvsr_statistics", lambda: hvsrpy.summarize_hvsr_statistics(obj)),
                             ("plot_pre_and_post_rejection", lambda: hvsrpy.plot_pre_and_post_rejection(recs, obj))):
                try:
                    with warnings.catch_warnings():
                        warnings.simplefilter("ignore")
                        out = fn()
                except (ValueError, ZeroDivisionError):
                    out = None      # e.g. "Mean curve does not have a peak" under these kwargs: legitimate; the object must still be unchanged
                except Exception as e:
                    out = None
                    fail(f"{name}:exception", f"{name} raised {type(e).__name__}: {e}")
                if digest(obj) != d0:
                    fail(f"{name}:mutates-object", f"{name} changed the object it was given")
                if out is not None and name == "plot_pre_and_post_rejection":
                    PlotHook.check_prepost_markers(out[1][1], out[1][3], obj, fail)
                if out is not None and name == "plot_single_panel_hvsr_curves":
                    PlotHook.check_prepost_markers(out[1], out[1], obj, lambda k_, m_: fail(k_, m_) if "after" in k_ else None)
                plt.close("all")
            n += 1
            run.case(("kwargs", json.dumps(kwargs), str(rng_), tuple(masks)) if differs else None)
    run.notes["kwargs_objects"] = n


def replot_after_change(run, hvsrpy, hook):
    """A figure shows the object's CURRENT statistics: the same object is plotted, its accept/reject state is changed so that the
    NUMBER of accepted windows stays what it was (one window rejected, another one taken back), and it is plotted again - the mean
    and +-1 standard deviation lines of every figure are the object's statistics at that moment.  (the first figure must not be
    what the second one shows; a figure of another, equal-looking object in between must not matter either)"""
    plt = hook.plt
    f = np.geomspace(0.5, 20, 14)
    rs = np.random.RandomState(5)

    def rows(k):
        out = []
        for w in range(5):
            a = 1.0 + 0.2 * rs.rand(14)
            a[4 + (w + k) % 3] = 3.0 + w
            out.append(a)
        return np.array(out)

    def lines_of(ax):
        return [ln for ln in ax.get_lines() if STY.mean(ln)], [ln for ln in ax.get_lines() if STY.std(ln)]

    n = 0
    for kind in ("traditional", "azimuthal"):
        for dm in ("lognormal", "normal"):
            obj = hvsrpy.HvsrTraditional(f, rows(0)) if kind == "traditional" else hvsrpy.HvsrAzimuthal([hvsrpy.HvsrTraditional(f, rows(0)), hvsrpy.HvsrTraditional(f, rows(1))], [0.0, 90.0])
            inner = [obj] if kind == "traditional" else obj.hvsrs
            for step, (rej, acc) in enumerate(((4, None), (0, 4), (2, 0), (1, 2))):
                i = inner[0]
                if step == 0 and len(inner) > 1:
                    inner[1].valid_window_boolean_mask[3] = False
                    inner[1].valid_peak_boolean_mask[3] = False
                for m in (i.valid_window_boolean_mask, i.valid_peak_boolean_mask):
                    m[rej] = False
                    if acc is not None:
                        m[acc] = True
                figs = [("plot_single_panel_hvsr_curves", lambda: hvsrpy.plot_single_panel_hvsr_curves(obj, distribution_mc=dm, distribution_fn=dm)[1])]
                if kind == "azimuthal":
                    figs.append(("plot_azimuthal_summary", lambda: hvsrpy.plot_azimuthal_summary(obj, distribution_mc=dm, distribution_fn=dm)[1][-1]))
                for name, fn in figs:
                    with warnings.catch_warnings():
                        warnings.simplefilter("ignore")
                        ax = fn()
                    ax = ax if hasattr(ax, "get_lines") else np.ravel(ax)[-1]
                    solid, dashed = lines_of(ax)
                    want_m = obj.mean_curve(dm)
                    want_s = sorted([tuple(np.round(obj.nth_std_curve(+1, dm), 12)), tuple(np.round(obj.nth_std_curve(-1, dm), 12))])
                    got_s = sorted(tuple(np.round(np.asarray(ln.get_ydata(), dtype=float), 12)) for ln in dashed)
                    if len(solid) != 1 or not np.allclose(solid[0].get_ydata(), want_m, rtol=1e-12) or got_s != want_s:
                        run.violation(f"plot:replot:{kind}", f"{name} of the same {kind} object after step {step} (window {rej} rejected, {acc} taken back; distribution {dm}): "
                                      f"the mean / +-1 std lines are not the object's current mean_curve / nth_std_curve", dict(kind="plot-replot", step=step, obj=kind, dm=dm, fig=name))
                    plt.close("all")
                n += 1
                run.case(("replot", kind, dm, step))
    run.notes["replot_after_change"] = n


def diffuse_field_objects(run, hvsrpy, hook):
    """A diffuse-field result is plotted and summarised like the others: read-only, also when its own peak search was bounded
    (range, find_peaks_kwargs) beforehand - the object keeps its range, its stored peak and its meta - and the marker drawn for the
    peak of the (mean) curve is the highest peak of the whole curve, which is what the figure asks for."""
    plt = hook.plt
    f = np.geomspace(0.3, 20.0, 40)
    a = 1.0 + 2.0 * np.exp(-((np.log(f) - np.log(0.8)) / 0.2) ** 2) + 4.0 * np.exp(-((np.log(f) - np.log(9.0)) / 0.15) ** 2)
    n = 0
    for rng_, kwargs in (((None, None), None), ((0.4, 2.0), None), ((None, 3.0), dict(prominence=0.5)), ((5.0, None), dict(width=1))):
        obj = hvsrpy.HvsrDiffuseField(f, a.copy(), meta={"processing_method": "diffuse_field"})
        obj.update_peaks_bounded(search_range_in_hz=rng_, find_peaks_kwargs=kwargs)

        def state():
            return (np.asarray(obj.frequency).tobytes(), np.asarray(obj.amplitude).tobytes(), repr((float(obj.peak_frequency), float(obj.peak_amplitude))),
                    repr(tuple(obj._search_range_in_hz)), json.dumps(obj.meta, sort_keys=True, default=str))
        s0 = state()
        for name, fn in (("plot_single_panel_hvsr_curves", lambda: hvsrpy.plot_single_panel_hvsr_curves(obj)),
                         ("summarize_hvsr_statistics", lambda: hvsrpy.summarize_hvsr_statistics(obj))):
            out = None
            try:
                import contextlib, io
                with warnings.catch_warnings(), contextlib.redirect_stdout(io.StringIO()):
                    warnings.simplefilter("ignore")
                    out = fn()
            except (ValueError, ZeroDivisionError):
                pass
            except Exception as e:
                run.violation(f"plot:{name}:exception:diffuse-field", f"{name} on a diffuse-field result (range {rng_}, kwargs {kwargs}) raised {type(e).__name__}: {e}",
                              dict(kind="plot-df", range=rng_, kwargs=kwargs))
            if state() != s0:
                run.violation(f"plot:{name}:mutates-object:diffuse-field", f"{name} changed the diffuse-field result it was given (search range {rng_}, find_peaks_kwargs {kwargs}): "
                              f"peak / range now {(float(obj.peak_frequency), tuple(obj._search_range_in_hz))}", dict(kind="plot-df", range=rng_, kwargs=kwargs))
                obj.update_peaks_bounded(search_range_in_hz=rng_, find_peaks_kwargs=kwargs)
                s0 = state()
            if out is not None and name == "plot_single_panel_hvsr_curves":
                curve = [ln for ln in out[1].get_lines() if len(ln.get_xdata()) == len(f) and np.array_equal(ln.get_ydata(), a)]
                if not curve:
                    run.violation("plot:panel:curve:diffuse-field", "the diffuse-field curve is not drawn", dict(kind="plot-df", range=rng_, kwargs=kwargs))
            plt.close("all")
        n += 1
        run.case(("df", str(rng_), json.dumps(kwargs)))
    run.notes["diffuse_field_objects"] = n


def contour_mesh(run, hvsrpy, hook):
    """The azimuthal contour (2-D) and surface (3-D): the row drawn at azimuth a carries the mean curve OF azimuth a, for results whose
    azimuths are listed in increasing order and for results whose azimuths are not (the object keeps the order it was given).  The
    arrays handed to contourf / plot_surface are captured through axes supplied by the caller."""
    plt = hook.plt
    f = np.geomspace(0.5, 20, 12)
    rs = np.random.RandomState(11)
    n = 0
    for azs in ([0.0, 45.0, 90.0, 135.0], [90.0, 0.0, 135.0, 45.0], [150.0, 30.0]):
        trads = []
        for k, a_ in enumerate(azs):
            rows = 1.0 + 0.1 * rs.rand(3, len(f))
            rows[:, 2 + (3 * k) % 8] += 2.0 + k          # every azimuth has its own, clearly different mean curve
            trads.append(hvsrpy.HvsrTraditional(f, rows))
        obj = hvsrpy.HvsrAzimuthal(trads, azs)
        for dm in ("lognormal", "normal"):
            want = {float(a_): np.asarray(t.mean_curve(dm)) for a_, t in zip(azs, obj.hvsrs)}
            for dim in (2, 3):
                fig = plt.figure()
                ax = fig.add_subplot(projection="3d") if dim == 3 else fig.add_subplot()
                got = {}
                name = "contourf" if dim == 2 else "plot_surface"
                orig = getattr(ax, name)

                def capture(X, Y, Z, *a_, _orig=orig, **k_):
                    got["xyz"] = (np.asarray(X), np.asarray(Y), np.asarray(Z))
                    return _orig(X, Y, Z, *a_, **k_)
                setattr(ax, name, capture)
                try:
                    with warnings.catch_warnings():
                        warnings.simplefilter("ignore")
                        if dim == 2:
                            hvsrpy.plot_azimuthal_contour_2d(obj, distribution_mc=dm, fig=fig, ax=ax)
                        else:
                            hvsrpy.plot_azimuthal_contour_3d(obj, distribution_mc=dm, ax=ax)
                except TypeError:
                    got = None         # (this function does not take caller-supplied axes: nothing to capture)
                except Exception as e:
                    run.violation(f"plot:contour{dim}d:exception", f"azimuths {azs}: {type(e).__name__}: {e}", dict(kind="plot-mesh", azs=azs, dim=dim))
                    got = None
                plt.close("all")
                if not got:
                    continue
                X, Y, Z = got["xyz"]
                bad = []
                for r_ in range(Y.shape[0]):
                    a_row = float(Y[r_, 0])
                    key_ = 0.0 if a_row == 180.0 and 180.0 not in want else a_row          # the surface is closed at 180 degrees with azimuth 0 ...
                    if key_ not in want:
                        key_ = float(azs[0]) if a_row == 180.0 else None                   # ... or, as today, with the FIRST azimuth listed
                    if key_ is None or not np.all(Y[r_] == a_row):
                        bad.append((r_, a_row, "no such azimuth"))
                    elif not (np.allclose(Z[r_], want[key_], rtol=1e-12) or (a_row == 180.0 and np.allclose(Z[r_], want[float(azs[0])], rtol=1e-12))):
                        bad.append((r_, a_row, "curve of another azimuth"))
                if bad:
                    run.violation(f"plot:contour{dim}d:mesh-rows", f"azimuths {azs} ({dm}): rows {bad} of the {'contour' if dim == 2 else 'surface'} mesh do not carry the "
                                  f"mean curve of the azimuth they are drawn at", dict(kind="plot-mesh", azs=azs, dim=dim, dm=dm))
                n += 1
                run.case(("mesh", tuple(azs), dm, dim))
    run.notes["contour_meshes_checked"] = n


def main():
    run = Run("C20")
    hvsrpy = import_hvsrpy()
    quick = run.quick
    total_calls = 0
    for na, rng_, k, stride in ((1, "Ranges6", 60 if quick else 12, 5 if quick else 3), (2, "Ranges6s", 15000 if quick else 3000, 9 if quick else 4)):
        ex = hvsrobj.cfg_text(na, 3, 6, "Alpha6a", rng_, "NSetA", "MaxItsA", "InitEnv", export=True, props=["CurvesFixed"])
        res, graph = hvsrobj.export_graph(ex, f"C20-export{na}", {"VERIF_K": k, "VERIF_SEED": run.seed}, timeout=3000)
        run.add_tlc(res, f"HvsrObject NA={na} export (states at which the plotting functions are exercised)")
        consts = (f"  NA = {na}\n  NW = 3\n  NF = 6\n  Alphabet <- Alpha6a\n  Ranges <- {rng_}\n  NSet <- NSetA\n"
                  f"  MaxIts <- MaxItsA\n  TdMasks <- AllMasks\n  InitSel <- InitAll\n  SThr <- SThrHalf\n")
        rp = hvsrobj.Replayer(run, hvsrpy, graph, ALPHA6[:6], na, 3, 6, consts, focus={"Init"})
        hook = PlotHook(run, hvsrpy, na, stride)
        # (N, L) and (L, N): the distribution of the mean curve differs from the distribution of fn
        for fenc, aenc in (("N", "N"), ("L", "L"), ("N", "L")) + ((("L", "N"),) if not quick else ()):
            rp.replay(hvsrobj.Instance(6, fenc, aenc), state_hook=hook)
        if na == 1:
            # the documented alias "log-normal" is the lognormal distribution in figures and tables too
            rp.replay(hvsrobj.Instance(6, "L", "L", alias=True), state_hook=hook, max_groups=6 if quick else None)
        rp.validate_pending()
        # read-only verdict by TLC: every recorded ReadOnly event must leave all object variables unchanged
        acc = hvsrobj.validate_traces(hook.traces, consts, f"trace-C20-{na}")
        run.traces += len(hook.traces)
        for i, (tr, m) in enumerate(zip(hook.traces, hook.trace_meta), start=1):
            if i not in acc:
                run.violation(f"plot:state-changed:{'azimuthal' if na > 1 else 'traditional'}",
                              f"a plotting/summary call changed the abstract state: cv={m[0]} state={m[1]} instance={m[2]} events={tr['ev']}",
                              dict(kind="plot-trace", trace=tr))
        if hook.traces and len(run.samples) < 4:
            run.samples.append(dict(read_only_trace=hook.traces[0]))
        run.notes[f"replay_NA{na}"] = rp.stats
        run.notes[f"plot_calls_NA{na}"] = hook.calls
        total_calls += hook.calls
    run.notes["plot_calls"] = total_calls
    kwargs_objects(run, hvsrpy, hook)
    replot_after_change(run, hvsrpy, hook)
    diffuse_field_objects(run, hvsrpy, hook)
    contour_mesh(run, hvsrpy, hook)
    # ---- read-only with respect to EVERY object alive, not only the one that is drawn (spec/TraceResultHeap.tla): sessions in which
    #      traditional, azimuthal and diffuse-field results with histories are plotted, summarised and assessed between other operations
    import resultheap
    resultheap.run_sessions(run, hvsrpy, "C20-result-heap", dict(new_trad=1, new_diffuse=1, assemble=2, update_range=4, reject=4, read_only=12, read=1),
                            dict(statistics=2, mean_curve_peak_bounded=1, single_panel=2, summary=2, azimuthal_figures=2, sesame=1, write=2), 16 if run.quick else 160, 16, "result-heap")
    return run.finish(
        rule="states of the exported HvsrObject graphs reached on real traditional / 2-azimuth objects; at every k-th state "
             "the single-panel plot (all options on), summary table, pre/post-rejection figure, waveform plot resp. the three "
             "azimuthal figures are called: object digest unchanged (also on exceptions), ReadOnly traces validated by TLC, "
             "artists compared with masks/curves and exact statistics; non-trivial = state-changing transition",
        exhaustive=False)


if __name__ == "__main__":
    sys.path.insert(0, __file__.rsplit("/", 1)[0])
    main_wrapper(main)
