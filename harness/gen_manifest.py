"""Regenerates MANIFEST.json from the table below (kept in one place so it stays valid)."""
import json, os
V = os.path.dirname(os.path.dirname(os.path.abspath(__file__)))

CHECKS = {}
NOT_APPLICABLE = []

def chk(pid, text, note, technique, design_ref, category="model_checking"):
    CHECKS[pid] = dict(
        property_id=pid,
        quick_cmd=f"./check {pid} --tier quick",
        thorough_cmd=f"./check {pid} --tier thorough",
        evidence_file=f"/verif/evidence/{pid}.json",
        replay_cmd_template=f"./check {pid} --replay {{path}}",
        engine="tlc+replay",
        level_claimed=dict(category=category, text=text, design_ref=design_ref),
        level_note=note,
        technique=technique)

chk("C08",
    "TLC checks, for every curve of length N<=7 over 3 levels and every search range on the half-step lattice "
    "(half-open, inverted, out-of-grid), that the implementation-shaped peak search refines the property-level "
    "relation and its algebraic consequences; every TLC state is then replayed into HvsrCurve, HvsrTraditional "
    "(range sequences), HvsrAzimuthal, HvsrDiffuseField and the mean-curve peak, verdict = membership in the "
    "property-level set. Exhaustive inside the small scope, which is where off-by-one/tie/stale-state bugs live.",
    "Trusted: TLC, the transcription of the property in spec/PeakRules.tla, numpy float equality on a linear grid. "
    "Scope is bounded (N<=7, 3 levels); noise-like long curves are covered only through the same case analysis.",
    "TLA+ spec (Peaks/PeakRules) model-checked with TLC; every TLC state replayed into the real objects; recorded sessions over result objects validated by TLC against TraceResultHeap (only the target changes, read-only operations change nothing)", "DESIGN.md#c08")

HV_NOTE = ("Trusted: TLC; the transcription of the estimators / peak rules / FDWRA in spec/{ExactStats,PeakRules,HvsrObject}.tla; "
           "the value encodings (frequency j*0.02 Hz or e^(j/q), amplitude = level or e^(level/q)) and rtol 1e-9 when an exact "
           "rational is compared with a float. Scope bounded (3-5 windows, 6-8 grid points, <= 2 azimuths); quick runs replay a "
           "seeded sample of the initial curve assignments, thorough runs many more.")

chk("C05",
    "TLC explores every history (range updates, FDWRA, time-domain and manual rejection) of small curve sets on the HvsrObject "
    "state machine, checks the mask/peak invariants and exports the exact textbook estimators over exactly the accepted windows; "
    "the transition graph is replayed on real HvsrTraditional objects in four value encodings and in every state all statistic "
    "accessors (incl. the 'log-normal' alias, +-n sigma, covariance, mean/std curves, mean-curve peak, period consistency) are "
    "compared with the exact value. A negative configuration shows TLC finds the history that breaks a mask-blind estimator.",
    HV_NOTE, "TLA+ state machine (HvsrObject) model-checked with TLC; exported transition graph replayed on the real objects; "
    "deviating steps re-judged by TLC trace validation against the property tier", "DESIGN.md#c05")
chk("C06",
    "The published FDWRA iteration is specified in exact rational arithmetic (property tier keeps both outcomes at exact ties); TLC "
    "checks on every Fdwra step never-re-accepts, 1<=iterations<=max_iterations and implementation-shaped outcome in the property "
    "set, for all orderings of sampled window multisets; every transition (4 n values x 4 max_iterations x 4 ranges x cached/uncached "
    "entry x arbitrary start masks) is replayed on real traditional and azimuthal objects (return value + masks), amplitudes x8; "
    "lognormal-fn runs of the real function are recorded and validated by TLC against the property tier. On a grid of 1/64 Hz "
    "(ZeroExact) the zero guards of the algorithm are decided, not left open, and replayed with the library's logger at its default level.",
    HV_NOTE + " For a lognormal fn the criterion on |mean fn - mean-curve peak| needs exp() and is left open in the property tier.",
    "TLA+ FDWRA operator model-checked with TLC; transitions replayed into the real function; recorded runs validated by TLC (trace validation)",
    "DESIGN.md#c06")
chk("C11",
    "TLC checks in every reachable state of a 2-azimuth object the algebra of the Cheng weighting (equal counts = pooled, order of "
    "azimuths irrelevant, mean = mean of azimuth means; one azimuth = traditional) and exports the exact weighted estimators; the "
    "graph is replayed on real HvsrAzimuthal objects (unequal per-azimuth counts, peak-less and all-flat azimuths included) and all "
    "weighted accessors are compared in every state.",
    HV_NOTE, "TLA+ state machine (HvsrObject, NA=2) model-checked with TLC; exported graph replayed on real HvsrAzimuthal objects; recorded sessions over result objects validated by TLC against TraceResultHeap (only the target changes, read-only operations change nothing)", "DESIGN.md#c11")
chk("C12",
    "TLC checks MetaRangeCurrent (the range a reader re-searches with equals the range the peaks were computed with) in every "
    "reachable state; every state of the exported graphs is reached on real traditional / azimuthal objects, written and read back: "
    "curves bit for bit, masks, range, peaks, all statistics (==), derived file columns against the object and the exact value; "
    "real states whose meta range is stale are round-tripped too; random diffuse-field objects.",
    HV_NOTE, "TLA+ state machine model-checked with TLC; every reached real state written/read and compared; recorded sessions over result objects validated by TLC against TraceResultHeap (only the target changes, read-only operations change nothing)", "DESIGN.md#c12")

chk("C13",
    "TLC enumerates every small window list (2 windows x 3 components over 4-5 STA chunk patterns, 6 component subsets, 4 limit "
    "pairs/thresholds, ratios exactly on a limit kept as ties), checks that the early-exit component loop refines the property-level "
    "selection, conjunction over components, monotonicity in the limits and per-window decisions; every case is realised as real "
    "windows and pushed through sta_lta_window_rejection / maximum_value_window_rejection with and without an attached traditional "
    "or azimuthal result (identity, order, both masks on every azimuth), rescaled by powers of two and window by window; the "
    "TdReject action of the HvsrObject state machine binds the masks to histories.",
    "Trusted: TLC; spec/TdReject.tla; exact chunk means by construction (+-level square waves, dt = 0.25 s); STA/LTA lengths are "
    "fixed (2 s / 4 s on 8 s windows) - other length combinations are not explored.",
    "TLA+ kernel spec (TdReject) model-checked with TLC; one implementation test per TLC case; HvsrObject transitions replayed", "DESIGN.md#c13")
chk("C20",
    "States of the HvsrObject state machine are reached on real traditional / 2-azimuth objects by replaying the TLC transition "
    "graph; at sampled states every plotting and summary function is called (Agg): each call is recorded as a ReadOnly event and the "
    "trace validated by TLC (UNCHANGED of every object variable), a deep digest must be identical also when the function raises, and "
    "the artists (accepted/rejected lines, mean and +-1 std curves, peak markers, fn band, summary table incl. the period row, "
    "azimuthal peak markers) are compared with the state and with the exact statistics exported by TLC.",
    HV_NOTE + " Artists are compared as data (style class by colour/width/marker); pixels are out of scope.",
    "TLC-generated behaviours replayed on real objects; read-only verdict by TLC trace validation; artists vs exact statistics; recorded sessions over result objects validated by TLC against TraceResultHeap (only the target changes, read-only operations change nothing)", "DESIGN.md#c20")

chk("C10",
    "TLC checks the tiling lemmas (windows start on j*k, share their boundary sample, span k+1 samples, only the last may be one "
    "short, tail shorter than a window, too long = error, exact multiples count in full) for every record length N<=80, k<=14 and "
    "10 sampling rates, and exports every case; each is run through TimeSeries.split (all), SeismicRecording3C.split and preprocess "
    "on ramp records so positions are readable. The step order is bound by factorisation: for every settings combination the "
    "spec's step sequence is executed with the library's own primitives and must equal preprocess() bit for bit, while the wrong "
    "orders must differ (non-vacuity).",
    "Trusted: TLC; spec/Split.tla, spec/PreOrder.tla; the library's primitives (orient, Butterworth filter, detrend) as building "
    "blocks of the factorisation (their own correctness is C04 / scipy's). Window lengths on the half-interval lattice only.",
    "TLA+ kernel spec (Split, PreOrder) model-checked with TLC; one implementation test per TLC case; factorisation replay", "DESIGN.md#c10")

chk("C02",
    "The kernels are transcribed from the publications as tables of offset classes with exact rational weights (nice abscissae of the "
    "sinc^4 kernels: weights 81, 64, 729/16, 16, 729/256, 64/81, 81/625 over pi^4, zeros at k pi; classes just inside/outside the "
    "limits of the rectangular and triangular kernels; integer Savitzky-Golay coefficients). TLC checks on every subset of classes "
    "constant reproduction, linearity, between-min-and-max, zero-iff-empty, and cubic reproduction for S-G, and exports exact values; "
    "every case is evaluated with the compiled operator and with its interpreted source on real frequency vectors (several bandwidths, "
    "centres, FFT grids with the 0 Hz bin, off-grid/below/above centres), rows stacked and alone.",
    "Trusted: TLC; the kernel tables in spec/SmoothingMC.tla. Kernel shape is verified at the nice abscissae (7 per side and the zeros), "
    "not on a continuum; samples beyond Konno-Ohmachi's cut-off, S-G windows touching the first grid point and the 0 Hz bin inside a "
    "linear window are implementation-tier only; 'compiled = interpreted' is decided on the enumerated inputs.",
    "TLA+ kernel specs (Smoothing, SavGol, SmoothGrid) model-checked with TLC; one implementation test per TLC case, compiled and interpreted", "DESIGN.md#c02")

chk("C18",
    "Storage identity and content versions of arrays, TimeSeries, SeismicRecording3C and saved files are specified per operation "
    "(which objects may change, which are created on fresh storage, which contents coincide); seeded random histories of the real API "
    "(construct, copy constructors, split, trim/filter/detrend/taper/re-orient, in-place sample edits, save, load) are logged with "
    "np.shares_memory alias classes and SHA-256 digests and every step is validated by TLC (a corrupted trace must be rejected). "
    "trim: TLC enumerates every (N, rate, start, end on the quarter-interval lattice) case with the allowed first/last sample "
    "(ties either way) and each is replayed on TimeSeries.trim / SeismicRecording3C.trim.",
    "Trusted: TLC; spec/Heap.tla, TraceRecordingHeap.tla, Trim.tla; SHA-256 digests as content identity, np.shares_memory as "
    "storage identity; orientation compared modulo 360, meta by JSON content. Histories are sampled, not enumerated.",
    "recorded traces of the real objects validated by TLC against a TLA+ heap specification; TLC-enumerated trim cases replayed", "DESIGN.md#c18")

chk("C15",
    "Every settings object is a vector of (storage, content) slots (containers and nested arrays); per operation the specification "
    "states who may change, that new objects share no storage with existing settings objects - pristine default instances of all "
    "eight classes are kept alive from the start of every history, so the defaults of later objects are observable - that arguments "
    "and reloaded attributes arrive equal in content, that the class survives the dispatching reader and that processing with the "
    "reloaded settings is bit-identical. Seeded random histories of the real API are validated step by step by TLC; a corrupted "
    "trace must be rejected.",
    "Trusted: TLC; spec/Heap.tla, TraceSettingsHeap.tla; object identity / np.shares_memory as storage identity, SHA-256 of a JSON "
    "content normal form (list = tuple = array element-wise) as content identity. Histories are sampled.",
    "recorded traces of the real settings objects validated by TLC against a TLA+ heap specification", "DESIGN.md#c15")

chk("C09",
    "Design level: spec/Session.tla (recordings with content versions, the FFT length stored in the settings object as state, results "
    "keyed by recordings/versions/length): TLC proves Repeatable, InputsUntouched, ResultsImmutable, NeverTruncates for the "
    "property-level design and finds the counterexample history for today's FFT-length ratchet (negative configuration). Code level: "
    "seeded random sessions over every processing method x tapers x fft settings (process, exact repeats, interleaved calls incl. a "
    "recording needing 65 536 points, in-place modification of recordings and settings) are logged as heap snapshots (storage identity + "
    "SHA-256 content of every recording, settings object, result; whether the caller's list still holds the same recordings) and every "
    "step is validated by TLC against TraceSessionHeap; sessions with two time steps exercise the keeping policies.",
    "Trusted: TLC; spec/Heap.tla, Session.tla, TraceSessionHeap.tla; digests/alias classes as in C18. Two repeat mismatches caused by "
    "the stored FFT length are listed as open known findings (n=None, interleaved ratchet). Sessions are sampled.",
    "TLA+ design model checked with TLC (positive + negative config); recorded sessions of the real API validated by TLC (trace validation)", "DESIGN.md#c09")

chk("C16",
    "The nine SESAME (2004) criteria and the epsilon/theta table are transcribed over exact rationals (grid containing the band edges "
    "0.2/0.5/1/2 Hz, four mean-curve profile families over all peak positions, sigma_A alphabet bracketing every threshold, window "
    "lengths/counts and sigma_f around the limits, full and trimmed search ranges, a coarse grid with empty (f0/4,f0) intervals); exact "
    "equalities are ties. TLC checks the band table is total and the monotonicity consequences and exports every instance with its 9 "
    "verdicts; each is pushed through reliability()/clarity() at all verbosity levels and the verdict vectors compared.",
    "Trusted: TLC; the transcription of the guideline in spec/Sesame.tla (closed intervals of the guideline vs open ones in code differ "
    "only at ties, which are not judged); std = ln(sigma_A) evaluated in floating point with thresholds >= 0.5% away.",
    "TLA+ kernel spec (Sesame) model-checked with TLC; one implementation test per TLC case", "DESIGN.md#c16")

chk("C19",
    "spec/Cli.tla models the chunked process pool (chunksize = max(1, ntasks div nproc), one unpickled settings object per chunk, every "
    "interleaving of up to 3 workers): TLC proves Independent, ChunksPartition and termination (weak fairness) for the property-level "
    "design over every order of every batch, and finds the counterexample [big, small] for chunk-shared settings (negative configuration). "
    "The real hvsrpy entry point is run on TLC-enumerated (batch, order, nproc) configurations of miniSEED files needing 32 768 resp. "
    "65 536 points; each <stem>.csv is compared byte for byte with the per-file library pipeline, and the schedules recorded by the guarded "
    "hook are validated by TLC against the specification (TraceCli).",
    "Trusted: TLC; spec/Cli.tla as a model of multiprocessing.Pool.starmap chunking; obspy's miniSEED writer. Quick runs 6 CLI "
    "invocations, thorough 40; processing settings other than the FFT length are not varied.",
    "TLA+ concurrent model checked with TLC (safety + liveness, positive + negative config); real CLI runs validated by trace validation and byte-wise output comparison", "DESIGN.md#c19")

chk("C03",
    "TLC checks for every arrangement of up to 5 recordings over 3 time-step classes x 3 policies x 4 Nyquist classes that today's "
    "algorithm (insertion-ordered counting, first strict majority, group-by-group computation, index-map reordering) refines the "
    "property-level result (kept set - set-valued at a majority tie -, original order, Nyquist refusal); every case is realised with "
    "distinct seeded recordings and processed jointly under traditional / single-azimuth / RotDpp / azimuthal / diffuse-field settings, "
    "row k compared (rtol 1e-12) with the k-th kept recording processed alone, requested frequencies, finiteness, refusals.",
    "Trusted: TLC; spec/Pipeline.tla with Alone(i) uninterpreted (what a curve is, is C01's business); FFT length fixed at 32 768 by "
    "short recordings. PSD processing has no time-step policy and is not covered here.",
    "TLA+ kernel spec (Pipeline) model-checked with TLC (I => P); one implementation test per TLC case and method family", "DESIGN.md#c03")

chk("C04",
    "Orientations are modelled as Pythagorean rotations (rational cos/sin plus whole turns), samples as integers; TLC checks on every "
    "behaviour (deployed angle x sample set x up to 3 targets) energy preservation, composability, invertibility, untouched vertical, "
    "recovery of polarised motion and the clockwise convention, and on complex bins the rotation invariance of |NS|^2+|EW|^2 and the "
    "180-degree periodicity; every behaviour is replayed on SeismicRecording3C and the preprocessing orientation step against the exact "
    "samples; the HVSR-level relations (single azimuth = orient + north, a vs a+180, azimuthal = stack, RotDpp monotone/bounded, "
    "rotation-invariant combinations) are replayed through process() on seeded noise.",
    "Trusted: TLC; spec/Rotation.tla; degrees = atan2(s, c) + 360 k evaluated in floating point (comparison rtol 1e-9). The spectral "
    "relations are proved on Gaussian-integer bins and only replayed (not proved) on generic float recordings.",
    "TLA+ spec (Rotation) model-checked with TLC; every behaviour replayed on the real objects; metamorphic replays through process()", "DESIGN.md#c04")

chk("C17",
    "For 4-sample integer windows the DFT is exact in Gaussian integers: TLC checks Parseval on the interior bin, quadratic scaling, "
    "non-negativity and the Welch average for every window over the value alphabet, 1-2 windows and several sampling rates, and exports "
    "the exact density; each case is replayed through process(PsdProcessingSettings) on all three components. For general windows (even "
    "and odd n, zero padding, Tukey widths, 1-3 windows) the specification's Parseval identity, exact 4^k scaling, the Welch average and "
    "the diffuse-field relation sqrt((S(Pns)+S(Pew))/S(Pvt)) are evaluated on seeded noise; PSD preprocessing on analytic cases "
    "(spectral derivative of bin-centred sinusoids, flat response).",
    "Trusted: TLC; spec/Psd.tla; scipy's tukey as the definition of the taper. This is the most numeric property: beyond n = 4 the "
    "specification supplies the identity and the case structure, the arithmetic is checked in floating point (rtol 1e-9). Pole-zero "
    "responses other than the flat one are not covered.",
    "TLA+ kernel spec (Psd) model-checked with TLC; one implementation test per TLC case; identity-based replays on seeded noise", "DESIGN.md#c17")

chk("C14",
    "Exact geometry in TLA+: Sutherland-Hodgman clipping of a convex boundary by the perpendicular bisectors over normalised rationals, "
    "shoelace areas; TLC checks non-negativity, sum to one, independence of sensor order, translation and scaling on every lattice "
    "layout (sensors inside, on the edge, outside; square and pentagon) and exports the exact area fractions; each layout goes through "
    "HvsrSpatial.spatial_weights and bounded_voronoi, also permuted, translated (up to 4e4) and scaled. Monte-Carlo: TLC computes the exact "
    "weighted mean/variance of scripted realisations and checks weight-scale invariance, the zero-std closed form and bounds; "
    "montecarlo_fn is driven with a scripted generator returning exactly those realisations (four distribution pairs) and with seeded "
    "generators for reproducibility.",
    "Trusted: TLC; spec/Voronoi.tla, McStats.tla. Lattice layouts only for the exact areas (<= 5 sensors); layouts with fewer than 4 "
    "sensors inside or all retained sensors collinear are not judged; 'all seeds' is sampled.",
    "TLA+ kernel specs (Voronoi, McStats) model-checked with TLC; one implementation test per TLC case; scripted random generator", "DESIGN.md#c14")

chk("C07",
    "spec/Readers.tla enumerates file sets of every format over all 6 orders of the traces/files/columns, channel-naming variants (BH?/HH?/EH?/"
    "single letters; PEER UP/VER/azimuth codes/letter codes) and defects (missing, duplicated, unknown channel, header count +-1); TLC checks "
    "that today's selection rules refine the property-level result (component map or error), order irrelevance and refusal of defects. The "
    "harness writes the files of every case (miniSEED 1/3 files and SAC of both byte orders via obspy; SAF, MiniShark, PEER as text with \\n "
    "and \\r\\n) and reads them through read_single/read: samples exact (float32 for integer text formats), time step, degrees_from_north, meta "
    "file names, explicit orientation override, or the error. spec/ReadArgs.tla covers the 9 argument forms of read(). GCF: the shipped file "
    "against a direct obspy read.",
    "Trusted: TLC; spec/Readers.tla; obspy's writers and decoders for the binary formats (decode fidelity is obspy's). Judgement calls fixed "
    "in DESIGN.md: non-standard SAF column orders may be refused; SAF orientation judged for N-first files only; PEER azimuth pairs for which "
    "the smallest-relative-azimuth rule is not the right-handed assignment are implementation-tier only.",
    "TLA+ kernel spec (Readers, ReadArgs) model-checked with TLC; the harness writes real files for every TLC case and reads them back", "DESIGN.md#c07")

chk("C01",
    "The definition 'smoothed combined horizontal over smoothed vertical at the requested centres' is specified over integer amplitude "
    "spectra on K interior FFT bins for all 9 method names (5 functions; sqrt-valued combinations carried as squares) and two kernels on "
    "the bin grid, and over Gaussian-integer bins with Pythagorean azimuths for single azimuth / RotDpp; TLC checks invariance under a "
    "common factor, linearity in the horizontals, inverse proportionality to the vertical, the closed form for proportional components "
    "and alias equality, and exports exact ingredients; every case becomes three time series (irfft, FFT length = window length after a "
    "calibration probe) processed by process(). Taper and zero padding are bound by factorisation, scaling by powers of two bit-exactly, "
    "proportional components and 'never truncates' on seeded noise for every method, RotDpp, diffuse field and all seven operators.",
    "Trusted: TLC; spec/Spectral.tla, SpectralAz.tla; numpy's rfft/irfft as the DFT; scipy's tukey as the taper definition. Exactness is "
    "shown on the integer alphabets (K <= 5 bins); for generic float windows only the metamorphic and factorisation relations are decided. "
    "The azimuthal fan-out is bound relationally in C04 (stack of single-azimuth results).",
    "TLA+ kernel specs (Spectral, SpectralAz) model-checked with TLC; one implementation test per TLC case; factorisation/metamorphic replays", "DESIGN.md#c01")

def main():
    man = dict(
        version=1,
        setup_cmd="sh /verif/setup.sh",
        hooks=dict(guard="HVSRPY_VERIF",
                   enable="export HVSRPY_VERIF=1 (the ./check entry point sets it; hvsrpy is imported from /repo's working tree, nothing is built)",
                   baseline_off_cmd="cd /repo && env -u HVSRPY_VERIF -u HVSRPY_VERIF_TRACE /venv/bin/python -m pytest -ra -q -p no:cacheprovider --timeout=900 --continue-on-collection-errors",
                   source_commits=["144a0e9"],
                   add_only=True),
        engines=[dict(name="tlc+replay", path="/verif/check",
                      serves_properties=sorted(CHECKS),
                      kind_free_text="TLA+ specifications in /verif/spec model-checked with TLC 1.8; TLC-generated cases/behaviours replayed "
                                     "into the real hvsrpy objects and recorded traces validated against the specification")],
        checks=[CHECKS[k] for k in sorted(CHECKS)],
        notes="See DESIGN.md. ./check selftest demonstrates the binding (corrupted traces rejected, seeded mutants caught).",
        not_applicable=NOT_APPLICABLE)
    with open(os.path.join(V, "MANIFEST.json"), "w") as f:
        json.dump(man, f, indent=1)
    import jsonschema
    jsonschema.validate(man, json.load(open("/root/.vp/MANIFEST.schema.json")))
    print("MANIFEST.json written:", len(CHECKS), "checks")

if __name__ == "__main__":
    main()
