"""Regenerates MANIFEST.json from the table below (kept in one place so it stays valid)."""
import json, os
V = os.path.dirname(os.path.dirname(os.path.abspath(__file__)))

CHECKS = {}
NOT_APPLICABLE = []

def chk(pid, text, note, technique, design_ref, category="model_checking"):
    CHECKS[pid] = dict(
        property_id=pid,
        quick_cmd=f"./check {pid} --tier quick",
        thorough_cmd=f"./check {pid} --tier thorough",
        evidence_file=f"/verif/evidence/{pid}.json",
        replay_cmd_template=f"./check {pid} --replay {{path}}",
        engine="tlc+replay",
        level_claimed=dict(category=category, text=text, design_ref=design_ref),
        level_note=note,
        technique=technique)

chk("C08",
    "TLC checks, for every curve of length N<=7 over 3 levels and every search range on the half-step lattice "
    "(half-open, inverted, out-of-grid), that the implementation-shaped peak search refines the property-level "
    "relation and its algebraic consequences; every TLC state is then replayed into HvsrCurve, HvsrTraditional "
    "(range sequences), HvsrAzimuthal, HvsrDiffuseField and the mean-curve peak, verdict = membership in the "
    "property-level set. Exhaustive inside the small scope, which is where off-by-one/tie/stale-state bugs live.",
    "Trusted: TLC, the transcription of the property in spec/PeakRules.tla, numpy float equality on a linear grid. "
    "Scope is bounded (N<=7, 3 levels); noise-like long curves are covered only through the same case analysis.",
    "TLA+ spec (Peaks/PeakRules) model-checked with TLC; every TLC state replayed into the real objects", "DESIGN.md#c08")

def main():
    man = dict(
        version=1,
        setup_cmd="sh /verif/setup.sh",
        hooks=dict(guard="HVSRPY_VERIF",
                   enable="export HVSRPY_VERIF=1 (the ./check entry point sets it; hvsrpy is imported from /repo's working tree, nothing is built)",
                   baseline_off_cmd="cd /repo && env -u HVSRPY_VERIF -u HVSRPY_VERIF_TRACE /venv/bin/python -m pytest -ra -q -p no:cacheprovider --timeout=900 --continue-on-collection-errors",
                   source_commits=[],
                   add_only=True),
        engines=[dict(name="tlc+replay", path="/verif/check",
                      serves_properties=sorted(CHECKS),
                      kind_free_text="TLA+ specifications in /verif/spec model-checked with TLC 1.8; TLC-generated cases/behaviours replayed "
                                     "into the real hvsrpy objects and recorded traces validated against the specification")],
        checks=[CHECKS[k] for k in sorted(CHECKS)],
        notes="See DESIGN.md. ./check selftest demonstrates the binding (corrupted traces rejected, seeded mutants caught).",
        not_applicable=NOT_APPLICABLE)
    with open(os.path.join(V, "MANIFEST.json"), "w") as f:
        json.dump(man, f, indent=1)
    import jsonschema
    jsonschema.validate(man, json.load(open("/root/.vp/MANIFEST.schema.json")))
    print("MANIFEST.json written:", len(CHECKS), "checks")

if __name__ == "__main__":
    main()
