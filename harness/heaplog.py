"""World logger for the Heap-based trace specifications (C09, C15, C18).

Projects live Python objects to the abstract world of spec/Heap.tla:
  object id -> {kind, slots: [[cell, dig], ...]}
cell = alias class of the mutable storage behind a slot (numpy arrays: memory
overlap; lists/dicts: object identity; 0 for immutable scalars),
dig  = small integer naming the SHA-256 digest of the slot's content.
"""
import hashlib
import json
import os

import numpy as np

from vcommon import tlc, MachineryError, WORK


def dg(x):
    """Content digest of a slot value (hex string)."""
    h = hashlib.sha256()
    if isinstance(x, np.ndarray):
        h.update(str(x.dtype).encode() + str(x.shape).encode())
        h.update(np.ascontiguousarray(x).tobytes())
    else:
        h.update(json.dumps(norm(x), sort_keys=True).encode())
    return h.hexdigest()


def norm(x):
    """JSON normal form: tuples -> lists, arrays -> lists, floats kept exactly (repr)."""
    if isinstance(x, np.ndarray):
        return ["ndarray", x.tolist()]
    if isinstance(x, (list, tuple)):
        return [norm(v) for v in x]
    if isinstance(x, dict):
        return {str(k): norm(v) for k, v in sorted(x.items(), key=lambda kv: str(kv[0]))}
    if isinstance(x, (np.floating, float)):
        return repr(float(x))
    if isinstance(x, (np.integer,)):
        return int(x)
    if isinstance(x, (np.bool_,)):
        return bool(x)
    return x


def norm_content(x):
    """Content normal form that identifies list/tuple/array and int/float values (what 'equal in content' means)."""
    if isinstance(x, np.ndarray):
        return [norm_content(v) for v in x.tolist()]
    if isinstance(x, (list, tuple)):
        return [norm_content(v) for v in x]
    if isinstance(x, dict):
        return {str(k): norm_content(v) for k, v in sorted(x.items(), key=lambda kv: str(kv[0]))}
    if isinstance(x, (bool, np.bool_)):
        return bool(x)
    if isinstance(x, (int, float, np.floating, np.integer)):
        return repr(float(x))
    return x


class World:
    def __init__(self):
        self.objs = {}          # id -> (kind, slot_fn)  slot_fn() -> list of (storage or None, content value)
        self.dig_ids = {}
        self.cells = []         # registered storages: (id, ref)
        self.keep = []

    def add(self, name, kind, slot_fn):
        self.objs[name] = (kind, slot_fn)

    def remove(self, name):
        self.objs.pop(name, None)

    def _dig(self, value, content_mode=False):
        d = dg(norm_content(value)) if content_mode else dg(value)
        if d not in self.dig_ids:
            self.dig_ids[d] = len(self.dig_ids) + 1
        return self.dig_ids[d]

    def _cell(self, storage):
        if storage is None:
            return 0
        for cid, ref in self.cells:
            if isinstance(storage, np.ndarray) and isinstance(ref, np.ndarray):
                if np.shares_memory(storage, ref):
                    return cid
            elif ref is storage:
                return cid
        cid = len(self.cells) + 1
        self.cells.append((cid, storage))
        return cid

    def snapshot(self):
        out = {}
        for name, (kind, fn) in self.objs.items():
            slots = []
            for item in fn():
                storage, value = item[0], item[1]
                content_mode = len(item) > 2 and item[2]
                slots.append([self._cell(storage), self._dig(value, content_mode)])
            out[name] = dict(kind=kind, slots=slots)
        return out


def rec_slots(r):
    def fn():
        return [(r.ns.amplitude, r.ns.amplitude), (r.ew.amplitude, r.ew.amplitude), (r.vt.amplitude, r.vt.amplitude),
                (None, [r.ns.dt_in_seconds, r.ew.dt_in_seconds, r.vt.dt_in_seconds]),
                (None, float(r.degrees_from_north) % 360.0),
                (r.meta, meta_content(r.meta), True)]
    return fn


def meta_content(meta):
    # orientation entries are compared modulo 360 like the orientation itself
    m = dict(meta)
    for k in ("deployed degrees from north", "current degrees from north"):
        if k in m and isinstance(m[k], (int, float)):
            m[k] = float(m[k]) % 360.0
    return m


def ts_slots(t):
    return lambda: [(t.amplitude, t.amplitude), (None, [t.dt_in_seconds] * 3)]


def arr_slots(a):
    return lambda: [(a, a)]


def validate(module, traces, name, extra_env=None, workers=8, timeout=1200):
    """Batch trace validation: returns the set of accepted trace ids (1-based)."""
    wd = os.path.join(WORK, name)
    os.makedirs(wd, exist_ok=True)
    tf = os.path.join(wd, "traces.json")
    with open(tf, "w") as f:
        json.dump(traces, f)
    env = {"TRACE_FILE": tf}
    env.update(extra_env or {})
    res = tlc(module, cfg=module, workers=workers, timeout=timeout, env=env, workname=f"tlc-{name}")
    if res.error and "TIMEOUT" in res.error:
        raise MachineryError("trace validation timed out")
    if not res.ok and res.violated is None:
        raise MachineryError(f"trace validation failed to run ({module}): {res.error}\n" + "\n".join(res.stdout.splitlines()[-30:]))
    return {c["acc"] for c in res.cases if isinstance(c, dict) and "acc" in c}, res


def diagnose(module, trace, name):
    """Re-run one rejected trace alone and report the first event that is not allowed."""
    wd = os.path.join(WORK, name)
    os.makedirs(wd, exist_ok=True)
    tf = os.path.join(wd, "one.json")
    with open(tf, "w") as f:
        json.dump([trace], f)
    res = tlc(module, cfg=module + "_diag", workers=1, timeout=300, env={"TRACE_FILE": tf}, workname=f"tlc-{name}-diag")
    reached = max([c["l"] for c in res.cases if isinstance(c, dict) and "at" in c] or [1])
    return reached
