"""Replay engine binding spec/HvsrObject.tla to the real HvsrTraditional / HvsrAzimuthal.

TLC exports the labelled transition relation ("T" lines: state, action with
arguments and returned value, next state) and the exact statistics of every
state ("S" lines).  For every initial curve assignment the engine builds the
real object, walks the exported graph breadth-first (one real object per
abstract state, successors computed on deep copies) and after *every* action
compares the projected real state (range, meta range, cached peaks, both masks)
with the specification's.  Per-state hooks compare statistics (C05/C11),
write/read round trips (C12), plots (C20) ...

A projected state that differs from the implementation-shaped successor is not
yet a violation: the step is written to a trace and validated by TLC against
the PROPERTY tier (spec/TraceHvsrObject.tla); only a rejected step is one.
"""
import copy
import json
import math
import os
from collections import deque

import numpy as np

from vcommon import tlc, require_tlc_ok, workdir, WORK, SPEC, MachineryError

NOEND = -99
OP_PROPERTY = {"UpdateRange": "C08", "Fdwra": "C06", "TdReject": "C13", "ManualReject": "C05", "ManualSession": "C05", "Init": "C08",
               "PeakInStatistics": "C05"}

AZIMUTHS = [0.0, 45.0, 90.0, 135.0]


class Instance:
    """Concrete floats for the abstract grid / levels.

    fenc/aenc in {"N","L"}: "N" frequency = j*fscale, amplitude = level*ascale;
    "L" frequency = exp(j/q), amplitude = exp(level/q)."""

    def __init__(self, nf, fenc="N", aenc="N", fscale=0.02, q=4.0, ascale=1.0, azimuths=None, alias=False, aoff=0.0):
        self.nf, self.fenc, self.aenc, self.fscale, self.q, self.ascale = nf, fenc, aenc, fscale, q, ascale
        # "N" amplitudes = aoff + level * ascale: a large offset with a tiny scale gives curves that are nearly identical
        # (relative scatter ~1e-6) while every value stays exact in binary - estimators must not lose the scatter
        self.aoff = aoff
        if aoff and aenc != "N":
            raise ValueError("an amplitude offset is only defined for the normal encoding")
        self.azimuths = azimuths
        self.alias = alias      # spell the lognormal distribution with its documented alias "log-normal"
        j = np.arange(1, nf + 1, dtype=float)
        self.freq = j * fscale if fenc == "N" else np.exp(j / q)
        lname = "log-normal" if alias else "lognormal"
        self.dist_f = "normal" if fenc == "N" else lname
        self.dist_a = "normal" if aenc == "N" else lname
        self._unhz = {None: NOEND}
        for h in range(-4, 2 * nf + 8):
            self._unhz[self.hz(h)] = h

    def name(self):
        return f"f{self.fenc}a{self.aenc}" + ("~alias" if self.alias else "") + (f"+{self.aoff}" if self.aoff else "")

    def amp(self, levels):
        a = np.array(levels, dtype=float)
        return self.aoff + a * self.ascale if self.aenc == "N" else np.exp(a / self.q)

    def hz(self, h):
        if h == NOEND:
            return None
        return (h / 2.0) * self.fscale if self.fenc == "N" else float(np.exp((h / 2.0) / self.q))

    def unhz(self, v):
        if v is None:
            return NOEND
        v = float(v)
        if v in self._unhz:
            return self._unhz[v]
        return ("?", v)

    def idx(self, f):
        if f is None or (isinstance(f, float) and math.isnan(f)):
            return 0
        j = int(np.argmin(np.abs(self.freq - f)))
        return j + 1 if self.freq[j] == f else -1

    # exact rational statistic -> expected float
    def f_mean(self, m):
        return m * self.fscale if self.fenc == "N" else math.exp(m / self.q)

    def f_std(self, v):
        return math.sqrt(v) * self.fscale if self.fenc == "N" else math.sqrt(v) / self.q

    def f_nth(self, m, v, n):
        x = m + n * math.sqrt(v)
        return x * self.fscale if self.fenc == "N" else math.exp(x / self.q)

    def a_mean(self, m):
        return self.aoff + m * self.ascale if self.aenc == "N" else math.exp(m / self.q)

    def a_std(self, v):
        return math.sqrt(v) * self.ascale if self.aenc == "N" else math.sqrt(v) / self.q

    def a_nth(self, m, v, n):
        x = m + n * math.sqrt(v)
        return self.aoff + x * self.ascale if self.aenc == "N" else math.exp(x / self.q)

    def cov_scale(self):
        fs = self.fscale if self.fenc == "N" else 1.0 / self.q
        as_ = self.ascale if self.aenc == "N" else 1.0 / self.q
        return fs, as_


def rat(x):
    return x[0] / x[1]


class Graph:
    """Exported transition relation of one TLC run, grouped by curve assignment."""

    def __init__(self, cases):
        self.states = {}     # cvkey -> {skey: S line}
        self.trans = {}      # cvkey -> {skey: [T lines]}
        for c in cases:
            if not isinstance(c, dict) or "k" not in c:
                continue
            ck = json.dumps(c["cv"])
            sk = skey(c["s"])
            if c["k"] == "S":
                self.states.setdefault(ck, {})[sk] = c
            else:
                self.trans.setdefault(ck, {}).setdefault(sk, []).append(c)

    def groups(self):
        return sorted(self.states)


def skey(s):
    return json.dumps([s["r"], s["m"], s["pk"], s["vw"], s["vp"]])


def observable(p, ref):
    """The cached peak of a window whose peak flag is off cannot be observed through the public API
    (peak_frequencies / peak_amplitudes only list flagged windows): for the comparison with the specification such
    entries are taken from the specification's state `ref` (don't care)."""
    if ref is None or not isinstance(p.get("pk"), list):
        return p
    q = dict(p)
    try:
        q["pk"] = [[(x if v else y) for x, v, y in zip(rp, rv, rr)] for rp, rv, rr in zip(p["pk"], p["vp"], ref["pk"])]
    except Exception:
        return p
    return q


def export_graph(cfg_text, name, env, workers=16, timeout=1500, coverage=False):
    path = os.path.join(WORK, f"{name}.cfg")
    os.makedirs(WORK, exist_ok=True)
    with open(path, "w") as f:
        f.write(cfg_text)
    res = tlc("HvsrObjectMC", cfg=path[:-4], workers=workers, timeout=timeout, env=env, workname=f"tlc-{name}", coverage=coverage)
    require_tlc_ok(res, name)
    print(f"  [tlc {name}] {res.distinct} states / {res.generated} transitions in {res.wall_s:.1f}s")
    return res, Graph(res.cases)


def cfg_text(na, nw, nf, alphabet, ranges, nset, maxits, init, sthr="SThrHalf", export=True, invariants=(), props=(),
             tdmasks="AllMasks", dfree=False, nxt="Next", boxes="NoBoxes", zero_exact=False):
    lines = ["CONSTANTS", f"  NA = {na}", f"  NW = {nw}", f"  NF = {nf}", f"  Alphabet <- {alphabet}",
             f"  Ranges <- {ranges}", f"  NSet <- {nset}", f"  MaxIts <- {maxits}", f"  TdMasks <- {tdmasks}", f"  Boxes <- {boxes}",
             f"  InitSel <- {init}", f"  SThr <- {sthr}", f"  DFree = {'TRUE' if dfree else 'FALSE'}", f"  ZeroExact = {'TRUE' if zero_exact else 'FALSE'}",
             f"  Export = {'TRUE' if export else 'FALSE'}",
             "INIT Init", f"NEXT {nxt}", "VIEW View", "CHECK_DEADLOCK FALSE"]
    if export:
        lines += ["INVARIANT ExportState", "ACTION_CONSTRAINT ExportTrans"]
    lines += [f"INVARIANT {i}" for i in invariants]
    lines += [f"PROPERTY {p}" for p in props]
    return "\n".join(lines) + "\n"


# --------------------------------------------------------------------------
# real objects
# --------------------------------------------------------------------------

class Real:
    def __init__(self, hvsrpy, inst, alphabet, na, nw):
        self.h, self.inst, self.alphabet, self.na, self.nw = hvsrpy, inst, alphabet, na, nw
        ts = hvsrpy.TimeSeries
        good = np.tile([1.0, -1.0], 32)
        bad = good.copy()
        bad[40:48] *= 50.0
        self.rec_pass = hvsrpy.SeismicRecording3C(ts(good, 0.25), ts(good, 0.25), ts(good, 0.25))
        self.rec_fail = hvsrpy.SeismicRecording3C(ts(bad, 0.25), ts(bad, 0.25), ts(bad, 0.25))
        self.td_toggle = 0

    def build(self, cv):
        inst = self.inst
        trads = []
        for a in range(self.na):
            rows = np.array([inst.amp(self.alphabet[c - 1]) for c in cv[a]])
            trads.append(self.h.HvsrTraditional(inst.freq, rows, meta={"processing_method": "traditional"}))
        if self.na == 1:
            return trads[0]
        return self.h.HvsrAzimuthal(trads, (inst.azimuths or AZIMUTHS)[:self.na], meta={"processing_method": "azimuthal"})

    def inner(self, obj):
        return [obj] if self.na == 1 else obj.hvsrs

    def project(self, obj):
        inst = self.inst
        inner = self.inner(obj)
        rs = [tuple(inst.unhz(v) for v in i._search_range_in_hz) for i in inner]
        r = list(rs[0]) if all(x == rs[0] for x in rs) else ["inconsistent", [list(x) for x in rs]]
        m = obj.meta.get("search_range_in_hz", None)
        m = [inst.unhz(v) for v in m] if m is not None else None
        pk = [[inst.idx(float(f)) for f in i._main_peak_frq] for i in inner]
        vw = [[bool(x) for x in i.valid_window_boolean_mask] for i in inner]
        vp = [[bool(x) for x in i.valid_peak_boolean_mask] for i in inner]
        return dict(r=r, m=m, pk=pk, vw=vw, vp=vp)

    def apply(self, obj, a):
        """Apply the action labelled `a` to the real object; returns the returned value (if any)."""
        inst = self.inst
        op = a["op"]
        if op == "UpdateRange":
            r = (inst.hz(a["r"][0]), inst.hz(a["r"][1]))
            obj.update_peaks_bounded(search_range_in_hz=r, find_peaks_kwargs={} if a["kw"] else None)
            return None
        if op == "TdReject":
            recs = [self.rec_pass if (w + 1) in a["S"] else self.rec_fail for w in range(self.nw)]
            self.td_toggle += 1
            if self.td_toggle % 2:
                kept = self.h.sta_lta_window_rejection(recs, sta_seconds=2, lta_seconds=16, min_sta_lta_ratio=0.2,
                                                       max_sta_lta_ratio=2.5, hvsr=obj)
            else:
                kept = self.h.maximum_value_window_rejection(recs, maximum_value_threshold=5.0, normalized=False,
                                                             hvsr=obj)
            return len(kept)
        if op == "ManualReject":
            i = self.inner(obj)[a["a"] - 1]
            for w in a["S"]:
                i.valid_window_boolean_mask[w - 1] = False
                i.valid_peak_boolean_mask[w - 1] = False
            return None
        if op == "ManualSession":
            return self.manual_session(obj, a)
        if op == "Fdwra":
            r = (inst.hz(a["r"][0]), inst.hz(a["r"][1]))
            import warnings
            import logging
            kw_ = dict(n=a["n"][0] / a["n"][1], max_iterations=a["mi"], distribution_fn=inst.dist_f, distribution_mc=inst.dist_a,
                       search_range_in_hz=r, find_peaks_kwargs={} if a["kw"] else None)
            if not getattr(self, "capture_log", False):
                # the library's logger is left exactly as a user's process has it (default level): the DEBUG trace is only
                # switched on by the replayers that bind it (C06), so that both logging configurations are exercised
                self.fdwra_log = []
                with warnings.catch_warnings():
                    warnings.simplefilter("ignore")
                    return self.h.frequency_domain_window_rejection(obj, **kw_)
            # per-iteration DEBUG trace of the algorithm (masks, mean / std of fn, mean-curve peak before and after)
            records = []

            class _H(logging.Handler):
                def emit(self_, rec):
                    records.append(rec.getMessage())
            lg = logging.getLogger("hvsrpy.window_rejection")
            hd, old = _H(), lg.level
            lg.addHandler(hd)
            lg.setLevel(logging.DEBUG)
            self.fdwra_log = records
            try:
              with warnings.catch_warnings():
                warnings.simplefilter("ignore")
                return self.h.frequency_domain_window_rejection(obj, **kw_)
            finally:
                lg.removeHandler(hd)
                lg.setLevel(old)
        raise MachineryError(f"unknown op {op}")


def parse_fdwra_log(records):
    """DEBUG records of hvsrpy.window_rejection -> list of iterations [{vw, vp, mean_before, std_before, mc_before, ...}]"""
    import re as _re
    its, cur = [], None
    for m in records:
        m = m.strip()
        if m.startswith("c_iteration:"):
            cur = dict(k=int(m.split(":")[1]))
            its.append(cur)
        elif cur is None:
            continue
        elif m.startswith("valid_window_boolean_mask:"):
            cur["vw"] = [x == "True" for x in _re.findall(r"True|False", m)]
        elif m.startswith("valid_peak_boolean_mask:"):
            cur["vp"] = [x == "True" for x in _re.findall(r"True|False", m)]
        else:
            for key in ("mean_fn_before", "std_fn_before", "mc_peak_frq_before", "mean_fn_after", "std_fn_after", "mc_peak_frq_after"):
                if m.startswith(key + ":"):
                    try:
                        cur[key] = float(m.split(":")[1])
                    except ValueError:
                        cur[key] = None
    return its


def _manual_session(self, obj, a):
    """drive the interactive manual_window_rejection: the analyst draws the box a['b'], then clicks 'continue'"""
    import warnings
    import matplotlib
    matplotlib.use("Agg")
    import matplotlib.pyplot as plt
    import hvsrpy.window_rejection as wr
    if not hasattr(wr, "ginput_session") or not hasattr(wr, "manual_window_rejection"):
        # the interactive session is driven through the module-level name the function calls for mouse input; where that seam
        # is gone the action cannot be bound (the direct mask assignment of ManualReject still is)
        raise Unbindable("hvsrpy.window_rejection has no ginput_session seam to script the analyst's clicks")

    def _relative_to_absolute(rel, lim, scale):      # axes fraction -> data coordinate (the 'continue' box sits at 6 % / 94 %)
        lo, hi = lim
        if scale == "log":
            return float(10 ** (np.log10(lo) + rel * (np.log10(hi) - np.log10(lo))))
        return float(lo + rel * (hi - lo))
    inst = self.inst
    fl, fh, al, ah = a["b"]
    amp = (lambda half: (half / 2.0) * inst.ascale) if inst.aenc == "N" else (lambda half: float(np.exp((half / 2.0) / inst.q)))
    script = [([inst.hz(fl), inst.hz(fh)], [amp(al), amp(ah)]), "continue"]
    calls = []

    def fake_ginput(fig, ax, **kw):
        step = script[len(calls)] if len(calls) < len(script) else "continue"
        calls.append(step)
        if step == "continue":
            x = _relative_to_absolute(0.06, ax.get_xlim(), ax.get_xscale())
            y = _relative_to_absolute(0.94, ax.get_ylim(), ax.get_yscale())
            return ([x, x], [y, y])
        return step
    orig = wr.ginput_session
    wr.ginput_session = fake_ginput
    try:
        with warnings.catch_warnings():
            warnings.simplefilter("ignore")
            r = (inst.hz(a["r"][0]), inst.hz(a["r"][1]))
            wr.manual_window_rejection(obj, distribution_mc=inst.dist_a, distribution_fn=inst.dist_f, search_range_in_hz=r)
    finally:
        wr.ginput_session = orig
        plt.close("all")
    return None


Real.manual_session = _manual_session


class Unbindable(Exception):
    """an action of the specification that cannot be driven on this tree (a private seam the harness scripts is gone)"""


DEV_CAP = 3000       # deviating steps judged per replayer (400 deviating steps cost TLC about 8 s)


class Replayer:
    """Breadth-first replay of an exported graph on real objects."""

    def __init__(self, run, hvsrpy, graph, alphabet, na, nw, nf, trace_cfg_consts, focus=None):
        self.run, self.h, self.graph = run, hvsrpy, graph
        self.alphabet, self.na, self.nw, self.nf = alphabet, na, nw, nf
        self.trace_consts = trace_cfg_consts
        self.focus = focus            # set of ops whose mismatches this check reports (None = all)
        self.pending = []             # 1-step traces to be validated by TLC (P tier)
        self.good_traces = []         # sample of matching walks, validated as well (binding demo)
        self._noted = set()
        self.trans_hook = None
        self.step_hook = None
        self.fdwra_hook = None
        self.stats = dict(states=0, transitions=0, skipped_fdwra=0, mismatches=0, exceptions=0, ops={})

    def replay(self, inst, state_hook=None, max_groups=None, trans_filter=None, trans_hook=None, step_hook=None):
        self.trans_hook = trans_hook
        self.step_hook = step_hook
        import time
        t0 = time.time()
        real = Real(self.h, inst, self.alphabet, self.na, self.nw)
        real.capture_log = self.fdwra_hook is not None
        for gi, ck in enumerate(self.graph.groups()):
            if max_groups is not None and gi >= max_groups:
                break
            self._group(real, ck, state_hook, trans_filter)
        print(f"  [replay {inst.name()}] {self.stats['states']} states / {self.stats['transitions']} transitions so far, {time.time()-t0:.1f}s")

    def _group(self, real, ck, state_hook, trans_filter):
        run = self.run
        cv = json.loads(ck)
        states = self.graph.states[ck]
        trans = self.graph.trans.get(ck, {})
        obj0 = real.build(cv)
        p0 = real.project(obj0)
        k0 = skey(p0)
        if k0 not in states:
            self._mismatch(real, cv, None, dict(op="Init"), p0, None, "constructor state is not the specification's initial state")
            return
        store = {k0: obj0}
        walk = {k0: []}
        queue = deque([k0])
        while queue:
            k = queue.popleft()
            obj = store[k]
            sline = states[k]
            self.stats["states"] += 1
            if state_hook is not None:
                # on the object itself, not on a copy: accessors are read-only by contract, and anything they
                # leave behind (caches ...) must not change what later steps of the history observe
                state_hook(real, obj, sline, cv)
            for t in trans.get(k, []):
                a = t["a"]
                if a["op"] == "Fdwra" and real.inst.fenc != "N":
                    self.stats["skipped_fdwra"] += 1
                    continue
                if trans_filter is not None and not trans_filter(a, t):
                    continue
                o2 = copy.deepcopy(obj)
                try:
                    ret = real.apply(o2, a)
                except Unbindable:
                    self.stats["unbindable"] = self.stats.get("unbindable", 0) + 1
                    continue
                except Exception as e:       # the specification says this step is defined
                    self.stats["exceptions"] += 1
                    if a["op"] == "Fdwra" and isinstance(e, (ValueError, ZeroDivisionError, FloatingPointError)):
                        # acceptable iff the published algorithm is undefined under some property-level choice
                        pe = real.project(o2)
                        ev = dict(a, op="FdwraUndef", t=pe)
                        self.pending.append(dict(cv=cv, s0=t["s"], ev=[ev_of(ev)], _a=a, _expected=t["t"],
                                                 _inst=real.inst.name(), _why=f"raised {type(e).__name__}: {e}"))
                        continue
                    self._report(a["op"], f"exc:{a['op']}:{type(e).__name__}",
                                 f"{a} on cv={cv} from state {t['s']} raised {type(e).__name__}: {e}",
                                 dict(kind="hvsrobject-step", cv=cv, s=t["s"], a=a, inst=real.inst.name()))
                    continue
                p = observable(real.project(o2), t["t"])
                self.stats["transitions"] += 1
                if self.trans_hook is not None:
                    self.trans_hook(real, o2, t, p, cv)
                self.stats["ops"][a["op"]] = self.stats["ops"].get(a["op"], 0) + 1
                nontriv = None
                if skey(t["t"]) != k:
                    nontriv = ("T", ck, k, json.dumps(a, sort_keys=True))
                run.case(nontriv, sample=dict(cv=cv, state=t["s"], action=a, next=t["t"], instance=real.inst.name())
                         if nontriv and len(run.samples) < 3 and a["op"] == "Fdwra" and t["t"]["vp"] != t["s"]["vp"] else None)
                ok = skey(p) == skey(t["t"])
                if a["op"] == "Fdwra" and ret != a["it"]:
                    ok = False
                if ok and a["op"] == "Fdwra" and self.fdwra_hook is not None and self.na == 1:
                    self.fdwra_hook(real, t, p, states, cv, parse_fdwra_log(getattr(real, "fdwra_log", [])))
                if ok and self.step_hook is not None and skey(p) in states:
                    # after EVERY action (not only on first arrival in a state): the object carries its whole history
                    self.step_hook(real, o2, states[skey(p)], cv)
                if ok:
                    k2 = skey(p)
                    if k2 not in store:
                        store[k2] = o2
                        walk[k2] = walk[k] + [dict(a, t=p)]
                        queue.append(k2)
                        if len(self.good_traces) < 40 and len(walk[k2]) >= 2:
                            self.good_traces.append(dict(cv=cv, s0=p0, ev=[ev_of(e) for e in walk[k2]]))
                else:
                    self._mismatch(real, cv, t["s"], a, p, ret, None, expected=t["t"])

    @staticmethod
    def _blame(a, p, expected):
        """which property a deviating step speaks about: by the component of the state that deviates"""
        op = a["op"]
        if expected is None or not isinstance(p.get("r"), list):
            return op
        if p["vw"] != expected["vw"] or p["vp"] != expected["vp"]:
            return op
        if p["pk"] != expected["pk"]:
            # the masks are right but a flagged window carries a peak the search over the current range does not give
            return "PeakInStatistics" if op in ("TdReject", "ManualReject", "ManualSession") else "UpdateRange"
        if p["r"] != expected["r"]:
            return "UpdateRange"
        return op

    def _mismatch(self, real, cv, s, a, p, ret, why, expected=None):
        self.stats["mismatches"] += 1
        ev = dict(a, t=p)
        if a["op"] == "Fdwra":
            ev["it"] = ret
        self.pending.append(dict(cv=cv, s0=s if s is not None else p, ev=[ev_of(ev)], _a=a, _expected=expected,
                                 _inst=real.inst.name(), _why=why, _blame=self._blame(a, p, expected)))

    def _report(self, op, key, desc, replay):
        pid = OP_PROPERTY.get(op, self.run.pid)
        if self.focus is not None and op not in self.focus:
            self.stats["other_property_mismatches"] = self.stats.get("other_property_mismatches", 0) + 1
            if op not in self._noted:
                self._noted.add(op)
                print(f"NOTE: mismatch on {op} (property {pid}) seen by the {self.run.pid} check; judged by ./check {pid}: {desc[:300]}")
            return
        if pid != self.run.pid:
            print(f"NOTE: {pid}-type mismatch seen by the {self.run.pid} check: {desc[:200]}")
        self.run.violation(key, desc, replay)

    def validate_pending(self):
        """P-tier verdict for every step that differed from the I tier + binding demonstration."""
        run = self.run
        bad = [t for t in self.pending if not well_formed(t)]
        todo = [t for t in self.pending if well_formed(t)]
        for t in bad:
            self._report(t["_a"]["op"], f"malformed:{t['_a']['op']}",
                         f"{t['_a']} on cv={t['cv']}: projected state {t['ev'][0]['t']} is not a state of the model "
                         f"({t['_why'] or 'range/peak not on the grid or inner objects inconsistent'})",
                         dict(kind="hvsrobject-step", **strip(t)))
        # de-duplicate and cap
        uniq = {}
        for t in todo:
            uniq.setdefault(json.dumps(strip(t), sort_keys=True), t)
        n_dev = len(uniq)
        todo = list(uniq.values())[:DEV_CAP]
        if n_dev > DEV_CAP:
            print(f"  [trace validation] {n_dev} distinct deviating steps, only the first {DEV_CAP} are judged")
        traces = todo + self.good_traces
        if not traces:
            return
        import time as _time
        _t0 = _time.time()
        acc = validate_traces([strip(t) for t in traces], self.trace_consts, f"trace-{run.pid}")
        print(f"  [trace validation] {len(todo)} deviating + {len(self.good_traces)} matching steps judged by TLC in {_time.time() - _t0:.1f}s")
        run.traces += len(traces)
        for i, t in enumerate(traces, start=1):
            if i in acc:
                if t in todo:
                    run.drift += 1
                    if run.drift <= 3:
                        print(f"MODEL-DRIFT (informational): {t['_a']} cv={t['cv']} from {t['s0']} -> real {t['ev'][0]['t']} "
                              f"ret={t['ev'][0].get('it')}; implementation-shaped model expected {t['_expected']}; allowed by the property tier")
                continue
            if t in todo:
                a = t["_a"]
                self._report(t.get("_blame") or a["op"], f"step:{a['op']}" + (f":{t['_blame']}" if t.get("_blame") and t["_blame"] != a["op"] else ""),
                             f"{a} on cv={t['cv']} from state {t['s0']} (instance {t['_inst']}): real post-state "
                             f"{t['ev'][0]['t']} returned={t['ev'][0].get('it')} is not allowed by the property tier "
                             f"(implementation-shaped successor would be {t['_expected']})",
                             dict(kind="hvsrobject-step", **strip(t)))
            else:
                raise MachineryError(f"a trace recorded from a matching walk was rejected by TLC: {strip(t)}")


def strip(t):
    return {k: v for k, v in t.items() if not k.startswith("_")}


def ev_of(e):
    out = dict(op=e["op"], t=e["t"])
    for k in ("r", "kw", "n", "mi", "S", "a", "it", "b"):
        if k in e:
            out[k] = e[k]
    return out


def well_formed(t):
    for e in t["ev"]:
        p = e["t"]
        if p["m"] is None or any(not isinstance(x, int) for x in p["r"]) or any(not isinstance(x, int) for x in p["m"]):
            return False
        if any(x < 0 for row in p["pk"] for x in row):
            return False
        if e["op"] == "FdwraUndef":
            continue
        if e["op"] == "Fdwra" and not isinstance(e.get("it"), int):
            return False
    return True


def validate_traces(traces, consts, name, extra_cfg=""):
    """Run TraceHvsrObject on a batch of traces; returns the set of accepted ids (1-based)."""
    wd = os.path.join(WORK, name)
    os.makedirs(wd, exist_ok=True)
    tf = os.path.join(wd, "traces.json")
    with open(tf, "w") as f:
        json.dump(traces, f)
    cfg = os.path.join(wd, "TraceHvsrObject_run.cfg")
    with open(cfg, "w") as f:
        f.write("CONSTANTS\n" + consts + ("" if "DFree" in consts else "  DFree = FALSE\n") + ("" if "ZeroExact" in consts else "  ZeroExact = FALSE\n") + ("" if "Boxes" in consts else "  Boxes <- NoBoxes\n") +
                "  Export = FALSE\n" +
                "INIT TraceInit\nNEXT TraceNext\nVIEW TraceView\nCHECK_DEADLOCK FALSE\nCONSTRAINT Accepted\n" + extra_cfg)
    res = tlc("TraceHvsrObject", cfg=cfg[:-4], workers=8, timeout=1200, env={"TRACE_FILE": tf}, workname=f"tlc-{name}")
    if res.error and "TIMEOUT" in res.error:
        raise MachineryError("trace validation timed out")
    if not res.ok and res.violated is None:
        raise MachineryError("trace validation failed to run: " + str(res.error) + "\n" + "\n".join(res.stdout.splitlines()[-30:]))
    return {c["acc"] for c in res.cases if isinstance(c, dict) and "acc" in c}
