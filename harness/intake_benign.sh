#!/bin/sh
# usage: intake_benign.sh <Cnn> [check ids...]  - a property-PRESERVING change delivered as $WT_BASE/<Cnn>/_benign/{patch.diff,compare.py}
# applied to a clean scratch copy of /repo; the listed quick checks run against it and must all exit 0 (never touches /repo)
id="$1"; shift; checks="${*:-$id}"
base=${WT_BASE:-/tmp/wt9}; src=$base/$id/_benign
s=/tmp/benign_$id; rm -rf $s; mkdir -p $s/clean $s/mut
for d in clean mut; do (cd /repo && tar cf - --exclude=.git --exclude=__pycache__ --exclude=examples --exclude=docs --exclude=gallery --exclude=figs .) | (cd $s/$d && tar xf -); done
patch -p1 -s -d $s/mut -i $src/patch.diff || { echo "PATCH DOES NOT APPLY"; exit 2; }
echo "== patch: $(grep -c '^[-+][^-+]' $src/patch.diff) changed lines in $(grep '^+++ ' $src/patch.diff | tr '\n' ' ')"
sed "s|$base/$id|$s/mut|g" $src/compare.py > $s/compare_mut.py; sed "s|$base/$id|$s/clean|g" $src/compare.py > $s/compare_clean.py
(cd $s/mut && timeout 300 /venv/bin/python $s/compare_mut.py > $s/compare_mut.txt 2>&1); echo "== compare WITH change rc=$?"
(cd $s/clean && timeout 300 /venv/bin/python $s/compare_clean.py > $s/compare_clean.txt 2>&1); echo "== compare WITHOUT change rc=$?"
if cmp -s $s/compare_mut.txt $s/compare_clean.txt; then echo "== compare outputs identical"; else echo "== compare outputs DIFFER: $(diff $s/compare_mut.txt $s/compare_clean.txt | head -4 | cut -c1-160 | tr '\n' '|')"; fi
for c in $checks; do
  (cd /verif && HVSRPY_VERIF_WORK=$s/work HVSRPY_VERIF_REPO=$s/mut ./check $c --tier quick > $s/check_$c.txt 2>&1); echo "== check $c against the changed tree rc=$?"
  grep "violation key\|^\[$c\|MACHINERY\|KNOWN" $s/check_$c.txt | cut -c1-240 | head -8
done
