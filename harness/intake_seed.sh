#!/bin/sh
# usage: intake_seed.sh <Cnn> [check ids...]  - verify a seeded change delivered as /tmp/wt/<Cnn>/_seeded/{patch.diff,demo.py}
# on clean scratch copies of /repo (never relies on the state of the worktree; never touches /repo)
id="$1"; shift; checks="${*:-$id}"
base=${WT_BASE:-/tmp/wt}; src=$base/$id/_seeded
s=/tmp/intake_$id; rm -rf $s; mkdir -p $s/clean $s/mut
for d in clean mut; do (cd /repo && tar cf - --exclude=.git --exclude=__pycache__ --exclude=examples --exclude=docs --exclude=gallery --exclude=figs .) | (cd $s/$d && tar xf -); done
mkdir -p $s/clean/_seeded $s/mut/_seeded
patch -p1 -s -d $s/mut -i $src/patch.diff || { echo "PATCH DOES NOT APPLY"; exit 2; }
echo "== patch: $(grep -c '^[-+][^-+]' $src/patch.diff) changed lines in $(grep '^+++ ' $src/patch.diff | tr '\n' ' ')"
sed "s|$base/$id|$s/mut|g" $src/demo.py > $s/demo_mut.py; sed "s|$base/$id|$s/clean|g" $src/demo.py > $s/demo_clean.py
(cd $s/mut && timeout 300 /venv/bin/python $s/demo_mut.py > $s/demo_mut.txt 2>&1); echo "== demo WITH change rc=$? : $(tail -1 $s/demo_mut.txt | cut -c1-200)"
(cd $s/clean && timeout 300 /venv/bin/python $s/demo_clean.py > $s/demo_clean.txt 2>&1); echo "== demo WITHOUT change rc=$? : $(tail -1 $s/demo_clean.txt | cut -c1-200)"
for c in $checks; do
  (cd /verif && HVSRPY_VERIF_WORK=$s/work HVSRPY_VERIF_REPO=$s/mut ./check $c --tier quick > $s/check_$c.txt 2>&1); echo "== check $c against the changed tree rc=$?"
  grep "violation key\|^\[$c\|MACHINERY\|KNOWN" $s/check_$c.txt | cut -c1-240 | head -8
done
