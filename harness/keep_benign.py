"""keep_benign.py <Cnn> <name> <intake dir> <kind>  - store a property-PRESERVING change under /verif/benign/<name>/ (patch.diff, compare.py,
notes.md, meta.json with the checks that were run against it and their exit codes)"""
import json, os, re, shutil, sys, subprocess
pid, name, s, kind = sys.argv[1:5]
src = os.environ.get("WT_BASE", "/tmp/wt9") + f"/{pid}/_benign"
dst = f"/verif/benign/{name}"
os.makedirs(dst, exist_ok=True)
for f in ("patch.diff", "compare.py", "notes.md"):
    if os.path.exists(os.path.join(src, f)):
        shutil.copy(os.path.join(src, f), os.path.join(dst, f))
checks = {}
for fn in sorted(os.listdir(s)):
    if fn.startswith("check_"):
        txt = open(os.path.join(s, fn)).read()
        last = txt.strip().splitlines()[-1][:300] if txt.strip() else ""
        m = re.search(r"violations=(\d+)", last)
        checks[fn[6:-4]] = dict(violations=int(m.group(1)) if m else None, machinery_failure="MACHINERY" in txt, summary=last,
                                violation_keys=[l.strip() for l in txt.splitlines() if l.strip().startswith("violation key")][:8])
meta = dict(property=pid, kind=kind, preserves=pid,
            base_commit=subprocess.run(["git", "-C", "/repo", "log", "-1", "--format=%h"], capture_output=True, text=True).stdout.strip(),
            how="patch applied to a clean scratch copy of /repo; the listed quick checks run with HVSRPY_VERIF_REPO pointing at the changed copy; "
                "compare.py (paths rewritten) run on the changed and the unchanged copy; existing test suite run by the author of the change (see notes.md)",
            checks=checks, alarm=any(c["violations"] or c["machinery_failure"] for c in checks.values()))
json.dump(meta, open(os.path.join(dst, "meta.json"), "w"), indent=1)
print("kept", dst, "ALARM" if meta["alarm"] else "quiet")
