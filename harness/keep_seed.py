"""keep_seed.py <Cnn> <name> <caught_by comma list or '-'> <needs text>  - store a confirmed seeded change under /verif/seeded/<name>/"""
import json, os, shutil, sys, subprocess
pid, name, caught, needs = sys.argv[1], sys.argv[2], sys.argv[3], sys.argv[4]
src = os.environ.get("WT_BASE", "/tmp/wt") + f"/{pid}/_seeded"
dst = f"/verif/seeded/{name}"
os.makedirs(dst, exist_ok=True)
for f in ("patch.diff", "demo.py", "notes.md"):
    if os.path.exists(os.path.join(src, f)):
        shutil.copy(os.path.join(src, f), os.path.join(dst, f))
s = f"/tmp/intake_{pid}"
def tail(fn):
    try:
        return open(fn).read().strip().splitlines()[-1][:300]
    except Exception:
        return ""
checks = {}
for fn in sorted(os.listdir(s)) if os.path.isdir(s) else []:
    if fn.startswith("check_"):
        txt = open(os.path.join(s, fn)).read()
        checks[fn[6:-4]] = dict(violation_keys=[l.strip() for l in txt.splitlines() if l.strip().startswith("violation key")][:8], summary=tail(os.path.join(s, fn)))
meta = dict(property=pid, breaks=pid, needs_to_manifest=needs,
            caught_by=[c for c in caught.split(",") if c != "-"],
            expected_missed=(caught == "-"),
            confirmed=dict(base_commit=subprocess.run(["git", "-C", "/repo", "log", "-1", "--format=%h"], capture_output=True, text=True).stdout.strip(),
                           how="patch applied to a clean scratch copy of /repo; demo.py (paths rewritten) run on the changed and the unchanged copy; "
                               "the registered quick check run with HVSRPY_VERIF_REPO pointing at the changed copy; existing test suite run by the author of the change (see notes.md)",
                           demo_with_change=tail(os.path.join(s, "demo_mut.txt")), demo_without_change=tail(os.path.join(s, "demo_clean.txt")),
                           checks=checks))
json.dump(meta, open(os.path.join(dst, "meta.json"), "w"), indent=1)
print("kept", dst)
