"""mutate.py - mutation campaign: an *assessment* of the checks (not a registered check).

    mutate.py list  <file> [--max N] [--seed S]       enumerate mutants of one source file of /repo/hvsrpy
    mutate.py run   <file>... [--max N] [--jobs J] [--out results.jsonl] [--seed S] [--lines a-b]

For every mutant: a scratch copy of /repo's working tree (hard links, under /tmp, removed afterwards) with one
operator changed; (1) the repository's own tests for that module are run - a mutant they kill is of no interest;
(2) the quick checks mapped to the file are run against the copy (HVSRPY_VERIF_REPO).  The outcome is one JSON line:
killed_by_tests / caught (by which check, first violation key) / survived.  Survivors are triaged by hand
(equivalent, outside every property, or a gap to close) - see DESIGN.md section 8.2.  Nothing here touches /repo.
"""
import argparse
import ast
import concurrent.futures as cf
import json
import os
import random
import re
import shutil
import subprocess
import sys
import tempfile
import time

VERIF = os.path.dirname(os.path.dirname(os.path.abspath(__file__)))
REPO = "/repo"

FILES = {
    "hvsrpy/hvsr_curve.py": (["test/test_hvsr_curve.py"], ["C08"]),
    "hvsrpy/hvsr_traditional.py": (["test/test_hvsr_traditional.py"], ["C05", "C06", "C12", "C20"]),
    "hvsrpy/hvsr_azimuthal.py": (["test/test_hvsr_azimuthal.py"], ["C11", "C12", "C06"]),
    "hvsrpy/statistics.py": (["test/test_hvsr_traditional.py", "test/test_hvsr_azimuthal.py"], ["C05", "C11"]),
    "hvsrpy/window_rejection.py": (["test/test_window_rejection.py"], ["C06", "C13", "C05"]),
    "hvsrpy/smoothing.py": (["test/test_smoothing.py"], ["C02"]),
    "hvsrpy/processing.py": (["test/test_processing.py"], ["C03", "C17", "C09", "C01", "C04"]),
    "hvsrpy/preprocessing.py": (["test/test_processing.py"], ["C17", "C10", "C04"]),
    "hvsrpy/timeseries.py": (["test/test_timeseries.py"], ["C18", "C10", "C01", "C07"]),
    "hvsrpy/seismic_recording_3c.py": (["test/test_seismic_recording_3c.py"], ["C18", "C10", "C04", "C07"]),
    "hvsrpy/data_wrangler.py": (["test/test_datawrangler.py"], ["C07"]),
    "hvsrpy/regex.py": (["test/test_datawrangler.py"], ["C07"]),
    "hvsrpy/object_io.py": (["test/test_object_io.py"], ["C12", "C15"]),
    "hvsrpy/settings.py": (["test/test_settings.py"], ["C15", "C09"]),
    "hvsrpy/sesame.py": (["test/test_sesame.py"], ["C16"]),
    "hvsrpy/hvsr_spatial.py": (["test/test_hvsr_spatial.py"], ["C14"]),
    "hvsrpy/postprocessing.py": (["test/test_hvsr_traditional.py"], ["C20"]),
    "hvsrpy/hvsr_diffuse_field.py": (["test/test_processing.py"], ["C17"]),
    "hvsrpy/psd.py": (["test/test_processing.py"], ["C17"]),
    "hvsrpy/instrument_response.py": (["test/test_processing.py"], ["C17"]),
    "hvsrpy/cli.py": ([], ["C19"]),
}
DESELECT = ["--deselect", "test/test_datawrangler.py::TestDataWrangler::test_read_single_on_minishark"]

CMP = {ast.Lt: "<=", ast.LtE: "<", ast.Gt: ">=", ast.GtE: ">", ast.Eq: "!=", ast.NotEq: "=="}
CMP_SRC = {ast.Lt: "<", ast.LtE: "<=", ast.Gt: ">", ast.GtE: ">=", ast.Eq: "==", ast.NotEq: "!="}
BIN = {ast.Add: ("+", "-"), ast.Sub: ("-", "+"), ast.Mult: ("*", "/"), ast.Div: ("/", "*"), ast.FloorDiv: ("//", "/")}


def _is_text(n):
    return isinstance(n, ast.JoinedStr) or (isinstance(n, ast.Constant) and isinstance(n.value, str))


def enumerate_mutants(path):
    src = open(path).read()
    lines = src.split("\n")
    tree = ast.parse(src)
    skip = set()      # lines of docstrings, messages, raise / print / logger statements
    for n in ast.walk(tree):
        if isinstance(n, (ast.FunctionDef, ast.ClassDef, ast.Module)) and n.body and isinstance(n.body[0], ast.Expr) and _is_text(n.body[0].value):
            skip.update(range(n.body[0].lineno, n.body[0].end_lineno + 1))
        if isinstance(n, ast.Raise):
            skip.update(range(n.lineno, n.end_lineno + 1))
        if isinstance(n, ast.Expr) and isinstance(n.value, ast.Call):
            f = ast.unparse(n.value.func)
            if f.startswith(("logger.", "print", "warnings.")):
                skip.update(range(n.lineno, n.end_lineno + 1))
        if isinstance(n, ast.If) and "verbose" in ast.unparse(n.test):
            skip.update(range(n.lineno, n.end_lineno + 1))
        if isinstance(n, (ast.Assign, ast.AugAssign)) and ast.unparse(n.targets[0] if isinstance(n, ast.Assign) else n.target) in ("msg", "logger"):
            skip.update(range(n.lineno, n.end_lineno + 1))
    out = []

    def between(a, b, tok):
        """position of operator token `tok` between node a's end and node b's start (same line only)"""
        if a.end_lineno != b.lineno:
            return None
        seg = lines[a.end_lineno - 1][a.end_col_offset:b.col_offset]
        i = seg.find(tok)
        if i < 0:
            return None
        return (a.end_lineno, a.end_col_offset + i, a.end_col_offset + i + len(tok))

    for n in ast.walk(tree):
        if not hasattr(n, "lineno") or n.lineno in skip:
            continue
        if isinstance(n, ast.Compare) and len(n.ops) == 1 and type(n.ops[0]) in CMP:
            pos = between(n.left, n.comparators[0], CMP_SRC[type(n.ops[0])])
            if pos:
                out.append((pos, CMP[type(n.ops[0])], "cmp"))
        elif isinstance(n, ast.BinOp) and type(n.op) in BIN and not _is_text(n.left) and not _is_text(n.right):
            tok, rep = BIN[type(n.op)]
            pos = between(n.left, n.right, tok)
            if pos and not (tok == "*" and lines[pos[0] - 1][pos[1]:pos[1] + 2] == "**"):
                out.append((pos, rep, "arith"))
        elif isinstance(n, ast.BoolOp):
            tok, rep = ("and", "or") if isinstance(n.op, ast.And) else ("or", "and")
            pos = between(n.values[0], n.values[1], tok)
            if pos:
                out.append((pos, rep, "bool"))
        elif isinstance(n, ast.UnaryOp) and isinstance(n.op, ast.Not) and n.lineno == n.operand.lineno:
            out.append(((n.lineno, n.col_offset, n.operand.col_offset), "", "not"))
        elif isinstance(n, ast.Constant) and n.lineno == n.end_lineno:
            if isinstance(n.value, bool):
                out.append(((n.lineno, n.col_offset, n.end_col_offset), str(not n.value), "const"))
            elif isinstance(n.value, int) and 0 <= n.value <= 3:
                out.append(((n.lineno, n.col_offset, n.end_col_offset), str(n.value + 1), "const"))
                if n.value > 0:
                    out.append(((n.lineno, n.col_offset, n.end_col_offset), str(n.value - 1), "const"))
        elif isinstance(n, ast.UnaryOp) and isinstance(n.op, ast.USub) and n.lineno == n.operand.lineno and not isinstance(n.operand, ast.Constant):
            out.append(((n.lineno, n.col_offset, n.operand.col_offset), "", "neg"))
    res = []
    seen = set()
    for (ln, c0, c1), rep, kind in out:
        old = lines[ln - 1]
        new = old[:c0] + rep + old[c1:]
        if (ln, new) in seen or new == old:
            continue
        seen.add((ln, new))
        try:
            ast.parse("\n".join(lines[:ln - 1] + [new] + lines[ln:]))
        except SyntaxError:
            continue
        res.append(dict(line=ln, kind=kind, old=old.strip(), new=new.strip(), new_line=new))
    return res


def function_of(path, line):
    tree = ast.parse(open(path).read())
    best = ""
    for n in ast.walk(tree):
        if isinstance(n, (ast.FunctionDef, ast.ClassDef)) and n.lineno <= line <= n.end_lineno:
            best = n.name if not best or True else best
    return best


def run_mutant(rel, m, idx, skip_tests=False):
    tests, checks = FILES[rel]
    scratch = tempfile.mkdtemp(prefix="hvsrpy-mut-", dir="/tmp")
    dst = os.path.join(scratch, "repo")
    t0 = time.time()
    try:
        shutil.copytree(REPO, dst, ignore=shutil.ignore_patterns(".git", "__pycache__", "examples", "docs", "gallery", "figs"))
        p = os.path.join(dst, rel)
        lines = open(p).read().split("\n")
        lines[m["line"] - 1] = m["new_line"]
        open(p, "w").write("\n".join(lines))
        rec = dict(file=rel, idx=idx, line=m["line"], kind=m["kind"], old=m["old"], new=m["new"], function=function_of(os.path.join(REPO, rel), m["line"]))
        env = {k: v for k, v in os.environ.items() if not k.startswith("HVSRPY_VERIF")}
        env["MPLBACKEND"] = "Agg"
        tests = [t for t in tests if os.path.exists(os.path.join(dst, t))]
        if tests and not skip_tests:
            try:
                r = subprocess.run(["/venv/bin/python", "-m", "pytest", "-q", "-x", "-p", "no:cacheprovider", "--timeout=300"] + DESELECT + tests,
                                   cwd=dst, env=env, capture_output=True, text=True, timeout=900)
                killed = r.returncode != 0
            except subprocess.TimeoutExpired:
                killed = True
            if killed:
                rec.update(outcome="killed_by_tests", wall=round(time.time() - t0, 1))
                return rec
        env2 = dict(os.environ, HVSRPY_VERIF_REPO=dst, PYTHONHASHSEED="0", HVSRPY_VERIF_WORK=os.path.join(scratch, "work"))
        rec["checks"] = {}
        for c in checks:
            try:
                r = subprocess.run([os.path.join(VERIF, "check"), c, "--tier", "quick"], env=env2, capture_output=True, text=True, cwd=VERIF, timeout=1500)
                rc, out = r.returncode, r.stdout
            except subprocess.TimeoutExpired:
                rc, out = 124, ""
            keys = [l.strip() for l in out.splitlines() if l.strip().startswith("violation key")]
            mach = [l.strip()[:200] for l in out.splitlines() if l.startswith("MACHINERY")]
            rec["checks"][c] = dict(rc=rc, keys=keys[:3], machinery=mach[:1])
            if rc == 1:
                rec.update(outcome="caught", by=c, wall=round(time.time() - t0, 1))
                return rec
        rec.update(outcome="machinery" if any(v["rc"] not in (0, 1) for v in rec["checks"].values()) else "survived", wall=round(time.time() - t0, 1))
        return rec
    finally:
        shutil.rmtree(scratch, ignore_errors=True)


def main():
    ap = argparse.ArgumentParser()
    ap.add_argument("cmd", choices=["list", "run"])
    ap.add_argument("files", nargs="+")
    ap.add_argument("--max", type=int, default=40)
    ap.add_argument("--seed", type=int, default=0)
    ap.add_argument("--jobs", type=int, default=5)
    ap.add_argument("--out", default=os.path.join(VERIF, "work", "mutation.jsonl"))
    ap.add_argument("--lines", default=None, help="a-b: only mutants on these lines")
    ap.add_argument("--skip-tests", action="store_true")
    a = ap.parse_args()
    jobs = []
    for rel in a.files:
        ms = enumerate_mutants(os.path.join(REPO, rel))
        if a.lines:
            lo, hi = map(int, a.lines.split("-"))
            ms = [m for m in ms if lo <= m["line"] <= hi]
        rnd = random.Random(a.seed)
        idx = list(range(len(ms)))
        rnd.shuffle(idx)
        idx = sorted(idx[:a.max])
        if a.cmd == "list":
            for i in idx:
                print(f"{rel}:{ms[i]['line']} [{ms[i]['kind']}] {ms[i]['old']}  ->  {ms[i]['new']}")
            print(f"{rel}: {len(ms)} mutants, {len(idx)} selected")
            continue
        jobs += [(rel, ms[i], i) for i in idx]
    if a.cmd == "list":
        return
    os.makedirs(os.path.dirname(a.out), exist_ok=True)
    with cf.ThreadPoolExecutor(a.jobs) as ex, open(a.out, "a") as f:
        futs = [ex.submit(run_mutant, rel, m, i, a.skip_tests) for rel, m, i in jobs]
        for fu in cf.as_completed(futs):
            rec = fu.result()
            f.write(json.dumps(rec) + "\n")
            f.flush()
            print(f"{rec['outcome']:16s} {rec['file']}:{rec['line']} [{rec['kind']}] {rec['old'][:70]} -> {rec['new'][:70]}  {rec.get('by', '')} {rec['wall']}s", flush=True)


if __name__ == "__main__":
    main()
