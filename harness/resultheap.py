"""Recorded sessions over HVSR RESULT objects (HvsrTraditional, HvsrAzimuthal, HvsrDiffuseField, files), validated step by
step by TLC against spec/TraceResultHeap.tla: every operation changes the object it is applied to at most, creates objects on
storage of their own, and read-only operations (statistics, figures, tables, SESAME verdicts, writing) change nothing at all.

Used by check_C08 (range updates), check_C11 (rejections per azimuth), check_C12 (write / read) and check_C20 (figures, tables):
each runs the same driver with its own mix of operations and reports the steps TLC rejects under its own property.
"""
import copy
import io
import contextlib
import os
import warnings

import numpy as np

import heaplog
from heaplog import World

FIXED_TRAD = [1, 2]            # frequency, curves


def trad_slots(t):
    return [(None, np.asarray(t.frequency)), (None, np.asarray(t.amplitude)),
            (t.valid_window_boolean_mask, np.asarray(t.valid_window_boolean_mask)), (t.valid_peak_boolean_mask, np.asarray(t.valid_peak_boolean_mask)),
            (t._main_peak_frq, np.asarray(t._main_peak_frq)), (t._main_peak_amp, np.asarray(t._main_peak_amp)),
            (None, [None if v is None else float(v) for v in t._search_range_in_hz]), (t.meta, dict(t.meta), True)]


def slots_of(obj, h):
    if isinstance(obj, h.HvsrTraditional):
        return lambda: trad_slots(obj)
    if isinstance(obj, h.HvsrAzimuthal):
        def fn():
            out = []
            for t in obj.hvsrs:
                out += trad_slots(t)
            out.append((None, [float(a) for a in obj.azimuths]))
            out.append((obj.meta, dict(obj.meta), True))
            return out
        return fn
    if isinstance(obj, h.HvsrDiffuseField):
        return lambda: [(None, np.asarray(obj.frequency)), (None, np.asarray(obj.amplitude)),
                        (None, [float(obj.peak_frequency), float(obj.peak_amplitude)]),
                        (None, [None if v is None else float(v) for v in obj._search_range_in_hz]), (obj.meta, dict(obj.meta), True)]
    raise TypeError(type(obj))


class Driver:
    def __init__(self, h, rng, wd, weights):
        import matplotlib
        matplotlib.use("Agg")
        import matplotlib.pyplot as plt
        self.plt = plt
        self.h, self.rng, self.wd, self.weights = h, rng, wd, weights
        self.w = World()
        self.live, self.kind = {}, {}
        self.n = 0
        self.events = []
        self.failed = None
        self.freq = np.geomspace(0.5, 20.0, 16)
        os.makedirs(wd, exist_ok=True)

    def nid(self, p):
        self.n += 1
        return f"{p}{self.n}"

    def log(self, op, roles, new, fn, **args):
        pre = self.w.snapshot()
        try:
            with warnings.catch_warnings(), contextlib.redirect_stdout(io.StringIO()):
                warnings.simplefilter("ignore")
                fn()
        except (ValueError, ZeroDivisionError, IndexError) as e:
            # statistics that are undefined in this state (fewer than two accepted windows, no peak on the mean curve): the call
            # refuses - the world must still be what the rule says
            for i in new:
                self.w.remove(i); self.live.pop(i, None); self.kind.pop(i, None)
            new = []
            args["refused"] = f"{type(e).__name__}: {e}"[:120]
        except Exception as e:
            self.failed = (op, roles, args, f"{type(e).__name__}: {e}")
            for i in new:
                self.w.remove(i); self.live.pop(i, None); self.kind.pop(i, None)
            new = []
        finally:
            self.plt.close("all")
        post = self.w.snapshot()
        self.events.append(dict(op=op, roles=roles, new=new, pre=pre, post=post, fixed=args.pop("fixed", []), **args))

    def curves(self, nw):
        f, rng = self.freq, self.rng
        rows = []
        for w in range(nw):
            c = 1.0 + 0.05 * rng.rand(len(f))
            for k in range(int(rng.randint(1, 3))):
                j = int(rng.randint(2, len(f) - 2))
                c[j - 1:j + 2] += np.array([0.6, 1.5, 0.6]) * float(rng.uniform(1.0, 3.0))
            rows.append(c)
        return np.array(rows)

    def pick(self, kinds):
        c = [i for i, k in self.kind.items() if k in kinds]
        return c[self.rng.randint(len(c))] if c else None

    def add(self, i, obj, kind):
        self.live[i], self.kind[i] = obj, kind
        self.w.add(i, kind, slots_of(obj, self.h))

    def new_trad(self, nw=None):
        t = self.nid("t")
        nw = nw or int(self.rng.choice([4, 5]))
        self.log("NewTrad", {}, [t], lambda: self.add(t, self.h.HvsrTraditional(self.freq.copy(), self.curves(nw), meta={"site": "x", "processing_method": "traditional"}), "trad"))
        return t

    def new_diffuse(self):
        d = self.nid("d")
        self.log("NewDiffuse", {}, [d], lambda: self.add(d, self.h.HvsrDiffuseField(self.freq.copy(), self.curves(1)[0], meta={"site": "x", "processing_method": "diffuse_field"}), "diffuse"))
        return d

    def assemble(self):
        trads = [i for i, k in self.kind.items() if k == "trad"]
        if not trads:
            return
        k = int(self.rng.randint(1, min(3, len(trads)) + 1))
        srcs = [trads[j] for j in self.rng.choice(len(trads), k, replace=False)]
        nws = {self.live[s].amplitude.shape for s in srcs}
        a = self.nid("a")
        az = sorted(self.rng.choice([0.0, 30.0, 45.0, 90.0, 120.0, 150.0], k, replace=False).tolist())
        self.log("Assemble", {f"s{j}": s for j, s in enumerate(srcs)}, [a],
                 lambda: self.add(a, self.h.HvsrAzimuthal([self.live[s] for s in srcs], az, meta={"site": "x", "processing_method": "azimuthal"}), "azi"))

    def update_range(self):
        o = self.pick(("trad", "azi", "diffuse"))
        if o is None:
            return
        r = [(None, None), (0.8, 6.0), (None, 3.0), (2.0, None), (1.0, 12.0)][self.rng.randint(5)]
        kw = [None, {}, dict(width=1)][self.rng.randint(3)]
        obj = self.live[o]
        nin = 1 if self.kind[o] != "azi" else len(obj.hvsrs)
        fixed = [1, 2] if self.kind[o] != "azi" else [8 * k + j for k in range(nin) for j in (1, 2)] + [8 * nin + 1]
        self.log("UpdateRange", dict(o=o), [], lambda: obj.update_peaks_bounded(search_range_in_hz=r, find_peaks_kwargs=kw), fixed=fixed, range=str(r))

    def reject(self):
        o = self.pick(("trad", "azi"))
        if o is None:
            return
        obj = self.live[o]
        inner = [obj] if self.kind[o] == "trad" else obj.hvsrs
        nin = len(inner)
        how = ["fdwra", "manual", "fdwra-range", "time-domain"][self.rng.randint(4)]
        fixed = [8 * k + j for k in range(nin) for j in (1, 2)]
        if how == "manual":
            k = int(self.rng.randint(nin))
            w = int(self.rng.randint(len(inner[k].valid_window_boolean_mask)))
            # only azimuth k changes: every slot of the other azimuths is fixed, and the peaks and range of azimuth k
            fixed = [8 * q + j for q in range(nin) for j in range(1, 9) if q != k or j in (1, 2, 5, 6, 7)]

            def f():
                inner[k].valid_window_boolean_mask[w] = False
                inner[k].valid_peak_boolean_mask[w] = False
        elif how == "time-domain":
            # a time-domain rejection with the result attached: the masks of every azimuth are set from the verdicts on the windows
            nw = len(inner[0].valid_window_boolean_mask)
            ts = self.h.TimeSeries
            x = np.sin(np.arange(64) * 0.7)
            amp = self.rng.permutation(np.arange(1, nw + 1)).astype(float)
            recs = [self.h.SeismicRecording3C(ts(x * a_, 0.01), ts(x[::-1] * a_, 0.01), ts(x * 0.5 * a_, 0.01)) for a_ in amp]

            def f():
                if self.rng.rand() < 0.5:
                    self.h.maximum_value_window_rejection(recs, maximum_value_threshold=float(self.rng.choice([0.7, 0.95])), normalized=True, hvsr=obj)
                else:
                    self.h.sta_lta_window_rejection(recs, sta_seconds=0.08, lta_seconds=0.32, min_sta_lta_ratio=0.1, max_sta_lta_ratio=float(self.rng.choice([1.0, 5.0])), hvsr=obj)
        elif how == "fdwra":
            def f():
                self.h.frequency_domain_window_rejection(obj, n=float(self.rng.choice([1.0, 2.0])), max_iterations=int(self.rng.choice([1, 3, 50])))
        else:
            def f():
                self.h.frequency_domain_window_rejection(obj, n=2.0, search_range_in_hz=(0.8, 10.0))
        if self.kind[o] == "azi":
            fixed = fixed + [8 * nin + 1]
        self.log("Reject", dict(o=o), [], f, fixed=sorted(set(fixed)), how=how)

    def read_only(self):
        o = self.pick(("trad", "azi", "diffuse"))
        if o is None:
            return
        h, obj, kind = self.h, self.live[o], self.kind[o]
        dm = str(self.rng.choice(["lognormal", "normal"]))
        names = list(self.weights)
        what = names[self.rng.choice(len(names), p=np.array([self.weights[n] for n in names], dtype=float) / sum(self.weights.values()))]
        new = []
        if what == "statistics":
            def f():
                for nm in ("mean_curve", "std_curve"):
                    getattr(obj, nm)(dm) if kind != "diffuse" else obj.mean_curve()
                if kind != "diffuse":
                    obj.mean_fn_frequency(dm); obj.std_fn_frequency(dm); obj.cov_fn(dm); obj.nth_std_curve(1, dm); obj.nth_std_fn_frequency(-1, dm)
                obj.mean_curve_peak(dm) if kind != "diffuse" else obj.mean_curve_peak()
        elif what == "mean_curve_peak_bounded":
            def f():
                if kind == "diffuse":
                    obj.mean_curve_peak(search_range_in_hz=(None, 4.0))
                elif kind == "azi":
                    obj.mean_curve_peak_by_azimuth(dm)
                else:
                    obj.mean_curve_peak(dm)
        elif what == "single_panel":
            def f():
                h.plot_single_panel_hvsr_curves(obj, distribution_mc=dm, distribution_fn=dm) if kind != "diffuse" else h.plot_single_panel_hvsr_curves(obj)
        elif what == "summary":
            def f():
                h.summarize_hvsr_statistics(obj, distribution_mc=dm, distribution_fn=dm) if kind != "diffuse" else h.summarize_hvsr_statistics(obj)
        elif what == "azimuthal_figures":
            def f():
                if kind == "azi":
                    h.plot_azimuthal_contour_2d(obj, distribution_mc=dm)
                    h.plot_azimuthal_summary(obj, distribution_mc=dm, distribution_fn=dm)
                else:
                    h.plot_single_panel_hvsr_curves(obj, plot_invalid_curves=True) if kind == "trad" else h.plot_single_panel_hvsr_curves(obj)
        elif what == "sesame":
            def f():
                if kind == "diffuse":
                    return
                mc, sc = obj.mean_curve("lognormal"), obj.std_curve("lognormal")
                import hvsrpy.sesame as sesame
                sesame.reliability(60.0, 10, np.asarray(obj.frequency), mc, sc, search_range_in_hz=(None, None), verbose=0)
                sesame.clarity(np.asarray(obj.frequency), mc, sc, obj.std_fn_frequency("normal"), search_range_in_hz=(None, None), verbose=0)
        else:           # write
            fid = self.nid("f")
            fn_ = os.path.join(self.wd, f"{fid}.csv")
            new = [fid]

            def f():
                h.write_hvsr_object_to_file(obj, fn_, dm, dm) if kind != "diffuse" else h.write_hvsr_object_to_file(obj, fn_)
                data = open(fn_, "rb").read()
                self.live[fid], self.kind[fid] = fn_, "file"
                self.w.add(fid, "file", lambda data=data: [(None, np.frombuffer(data, dtype=np.uint8))])
        self.log("ReadOnly", dict(o=o), new, f, what=what)

    def read(self):
        fid = self.pick(("file",))
        if fid is None:
            return
        o = self.nid("o")

        def f():
            obj = self.h.read_hvsr_object_from_file(self.live[fid])
            kind = "trad" if isinstance(obj, self.h.HvsrTraditional) else ("azi" if isinstance(obj, self.h.HvsrAzimuthal) else "diffuse")
            self.add(o, obj, kind)
        self.log("Read", dict(f=fid), [o], f)

    def step(self, mix):
        ops = list(mix)
        op = ops[self.rng.choice(len(ops), p=np.array([mix[k] for k in ops], dtype=float) / sum(mix.values()))]
        getattr(self, op)()


def run_sessions(run, h, name, mix, weights, nsessions, nsteps, key_prefix, seed_offset=0):
    """`mix`: operation -> weight; `weights`: read-only flavour -> weight.  Violations are reported as f"{key_prefix}:{op}[:what]"."""
    from vcommon import workdir
    rng = np.random.RandomState(run.seed + 4242 + seed_offset)
    wd = workdir(name)
    traces = []
    for s in range(nsessions):
        d = Driver(h, rng, wd, weights)
        d.new_trad(nw=4)
        d.new_trad(nw=4)
        d.new_diffuse()
        d.assemble()
        for _ in range(nsteps):
            d.step(mix)
            if d.failed or len(d.live) > 14:
                break
        if d.failed:
            op, roles, args, msg = d.failed
            run.violation(f"{key_prefix}:{op}:raised", f"result session {s + 1}: {op} {args} roles={roles} raised {msg} after {[e['op'] for e in d.events]}",
                          dict(kind="result-heap-raise", ops=[e["op"] for e in d.events]))
        traces.append(dict(ev=d.events))
    acc, res = heaplog.validate("TraceResultHeap", traces, f"trace-{name}", timeout=3000)
    run.add_tlc(res, "TraceResultHeap: every recorded step on result objects (only the target changes, new objects on storage of their own, read-only operations change nothing)")
    run.traces += len(traces)
    ops = {}
    for i, tr in enumerate(traces, start=1):
        for e in tr["ev"]:
            k = e["op"] + (":" + e["what"] if e.get("what") else "") + (":" + e["how"] if e.get("how") else "")
            ops[k] = ops.get(k, 0) + 1
        run.case(("result-session", name, i), replayed=False)
        if i not in acc:
            nd = run.notes.get("result_heap_diagnosed", 0)
            run.notes["result_heap_diagnosed"] = nd + 1
            k = heaplog.diagnose("TraceResultHeap", tr, f"trace-{name}") if nd < 8 else 1
            e = tr["ev"][min(k, len(tr["ev"])) - 1]
            changed = sorted(o for o in e["pre"] if o in e["post"] and e["pre"][o] != e["post"][o])
            run.violation(f"{key_prefix}:{e['op']}" + (f":{e.get('what')}" if e.get("what") else "") + (f":{e.get('how')}" if e.get("how") else ""),
                          f"result session {i}: step {k} {e['op']} {e.get('what', '')}{e.get('how', '')} roles={e['roles']} is not allowed by TraceResultHeap "
                          f"(objects whose state differs afterwards: {changed}; new: {e['new']}; a bystander changed, storage is shared, or a fixed slot moved)",
                          dict(kind="result-heap", trace=dict(ev=tr["ev"][max(0, k - 2):k]), step=k))
    run.notes[f"result_heap_ops[{name}]"] = ops
    # binding demonstration: a recorded trace in which a bystander changes must be rejected
    bad = copy.deepcopy(traces[0])
    done = False
    for e in bad["ev"]:
        if e["op"] in ("UpdateRange", "Reject", "ReadOnly"):
            others = [o for o in e["post"] if o != e["roles"].get("o") and o in e["pre"]]
            if others:
                e["post"][others[0]]["slots"][-1][1] += 100000
                done = True
                break
    if done:
        acc2, _ = heaplog.validate("TraceResultHeap", [bad], f"trace-{name}-neg", timeout=600)
        run.notes["corrupted_trace_rejected"] = (1 not in acc2)
        if 1 in acc2:
            raise heaplog.MachineryError("a corrupted trace was accepted by TraceResultHeap")
    return traces
