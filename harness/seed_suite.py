"""seed_suite.py [--only substr] [--jobs N] - run the repository's own test suite on every seeded change.

For each /verif/seeded/<name>/patch.diff: a scratch copy of /repo's working tree (under /tmp, removed afterwards),
the patch applied, the baseline pytest command run (guard off); the set of failing tests must equal the set that
fails on the unchanged tree (three tests fail there already).  The outcome is written into meta.json
(`suite_confirmed`).  Nothing here touches /repo.
"""
import argparse
import concurrent.futures as cf
import json
import os
import re
import shutil
import subprocess
import tempfile

VERIF = os.path.dirname(os.path.dirname(os.path.abspath(__file__)))
REPO = "/repo"
KNOWN_BAD = {"test/test_datawrangler.py::TestDataWrangler::test_read_single_on_minishark",
             "test/test_example_notebooks.py::TestExampleNotebooks::test_notebook_example_hvsr_cli",
             "test/test_example_notebooks.py::TestExampleNotebooks::test_notebook_example_psd_and_self_noise"}


def suite(name):
    d = os.path.join(VERIF, "seeded", name)
    scratch = tempfile.mkdtemp(prefix=f"hvsrpy-suite-{name}-", dir="/tmp")
    try:
        dst = os.path.join(scratch, "repo")
        shutil.copytree(REPO, dst, ignore=shutil.ignore_patterns(".git", "__pycache__"))
        p = subprocess.run(["patch", "-p1", "-s", "-d", dst, "-i", os.path.join(d, "patch.diff")], capture_output=True, text=True)
        if p.returncode != 0:
            return name, dict(ok=False, why="patch does not apply")
        env = {k: v for k, v in os.environ.items() if not k.startswith("HVSRPY_VERIF")}
        r = subprocess.run(["/venv/bin/python", "-m", "pytest", "-q", "-p", "no:cacheprovider", "--timeout=900", "-rf", "test/"],
                           cwd=dst, env=env, capture_output=True, text=True)
        failed = set(re.findall(r"^FAILED (\S+)", r.stdout, re.M))
        m = re.search(r"(\d+) passed", r.stdout)
        res = dict(ok=failed == KNOWN_BAD, passed=int(m.group(1)) if m else 0, failed_other_than_baseline=sorted(failed - KNOWN_BAD),
                   base_commit=subprocess.run(["git", "-C", REPO, "log", "-1", "--format=%h"], capture_output=True, text=True).stdout.strip())
        return name, res
    finally:
        shutil.rmtree(scratch, ignore_errors=True)


def main():
    ap = argparse.ArgumentParser()
    ap.add_argument("--only", default=None)
    ap.add_argument("--jobs", type=int, default=8)
    a = ap.parse_args()
    sd = os.path.join(VERIF, "seeded")
    names = sorted(n for n in os.listdir(sd) if os.path.exists(os.path.join(sd, n, "meta.json")))
    if a.only:
        names = [n for n in names if a.only in n]
    bad = 0
    with cf.ThreadPoolExecutor(a.jobs) as ex:
        for name, res in ex.map(suite, names):
            mp = os.path.join(sd, name, "meta.json")
            meta = json.load(open(mp))
            meta["suite_confirmed"] = res
            json.dump(meta, open(mp, "w"), indent=1)
            print(("SUITE-OK   " if res["ok"] else "SUITE-FAIL ") + name + " " + json.dumps(res), flush=True)
            bad += 0 if res["ok"] else 1
    raise SystemExit(1 if bad else 0)


if __name__ == "__main__":
    main()
