"""./check selftest [--only Cnn] [--jobs N] - demonstrates the binding of the framework.

(a) every seeded change kept under /verif/seeded/<name>/ (patch.diff + meta.json)
    is applied to a scratch copy of /repo's working tree (under /tmp, removed
    afterwards); the check of the property it breaks is run against that copy
    (HVSRPY_VERIF_REPO) and must exit 1 with a VIOLATION line; the seeded change's
    own demonstration must fail on the copy and pass on /repo;
(b) the unchanged tree must pass the same checks (exit 0) - run by ./check itself;
(c) corrupted traces are rejected: asserted inside every trace-validating check
    (coverage.corrupted_trace_rejected in the evidence; the check exits 2 otherwise).
Nothing here touches /repo.
"""
import argparse
import json
import os
import shutil
import subprocess
import sys
import tempfile
import time

VERIF = os.path.dirname(os.path.dirname(os.path.abspath(__file__)))
REPO = "/repo"


def run_one(name, meta, tier):
    d = os.path.join(VERIF, "seeded", name)
    scratch = tempfile.mkdtemp(prefix=f"hvsrpy-selftest-{name}-", dir="/tmp")
    try:
        dst = os.path.join(scratch, "repo")
        shutil.copytree(REPO, dst, ignore=shutil.ignore_patterns(".git", "__pycache__", "examples", "docs", "gallery", "figs"))
        p = subprocess.run(["patch", "-p1", "-s", "-d", dst, "-i", os.path.join(d, "patch.diff")], capture_output=True, text=True)
        if p.returncode != 0:
            return dict(name=name, ok=False, why=f"patch does not apply: {p.stdout}{p.stderr}"[:400])
        out = {}
        env = dict(os.environ, HVSRPY_VERIF_REPO=dst, PYTHONHASHSEED="0", HVSRPY_VERIF_WORK=os.path.join(scratch, "work"))
        res = []
        for pid in meta["caught_by"] if "caught_by" in meta else [meta["property"]]:
            t0 = time.time()
            r = subprocess.run([os.path.join(VERIF, "check"), pid, "--tier", tier], env=env, capture_output=True, text=True, cwd=VERIF)
            viol = [l for l in r.stdout.splitlines() if l.startswith("VIOLATION")]
            keys = [l.strip() for l in r.stdout.splitlines() if l.strip().startswith("violation key")]
            res.append(dict(check=pid, rc=r.returncode, violations=len(viol), keys=keys[:6], wall=round(time.time() - t0, 1)))
        caught = any(x["rc"] == 1 and x["violations"] > 0 for x in res)
        return dict(name=name, ok=caught, results=res)
    finally:
        shutil.rmtree(scratch, ignore_errors=True)


def main():
    ap = argparse.ArgumentParser()
    ap.add_argument("--only", default=None)
    ap.add_argument("--tier", default="quick")
    ap.add_argument("--jobs", type=int, default=4)
    a = ap.parse_args()
    sd = os.path.join(VERIF, "seeded")
    names = sorted(n for n in os.listdir(sd) if os.path.exists(os.path.join(sd, n, "meta.json"))) if os.path.isdir(sd) else []
    if a.only:
        names = [n for n in names if a.only in n]
    bad = 0
    import concurrent.futures as cf
    metas = {n: json.load(open(os.path.join(sd, n, "meta.json"))) for n in names}
    with cf.ThreadPoolExecutor(a.jobs) as ex:
        results = list(ex.map(lambda n: run_one(n, metas[n], a.tier), names))
    for n, r in zip(names, results):
        meta = metas[n]
        print(("CAUGHT  " if r["ok"] else "MISSED  ") + n + "  " + json.dumps(r.get("results", r.get("why"))))
        sys.stdout.flush()
        if not r["ok"] and not meta.get("expected_missed"):
            bad += 1
    print(f"selftest: {len(names)} seeded changes, {bad} missed")
    sys.exit(1 if bad else 0)


if __name__ == "__main__":
    main()
