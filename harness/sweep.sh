#!/bin/sh
# runs every registered quick check for a few seeds; prints one line per run (used to look for false alarms / slow runs)
cd "$(dirname "$0")/.." || exit 2
mkdir -p work evidence replays
for seed in ${SEEDS:-1 2 3}; do
  for id in $(/venv/bin/python -c "import json;print(' '.join(c['property_id'] for c in json.load(open('MANIFEST.json'))['checks']))"); do
    s=$(date +%s)
    VERIF_SEED=$seed ./check $id --tier ${TIER:-quick} > work/sweep_${id}_${seed}.log 2>&1
    rc=$?
    e=$(date +%s)
    echo "seed=$seed $id rc=$rc $((e-s))s $(tail -1 work/sweep_${id}_${seed}.log | cut -c1-160)"
  done
done
