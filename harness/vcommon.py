"""Shared machinery of the hvsrpy verification framework.

* locate and import the implementation under test (``HVSRPY_VERIF_REPO``,
  default ``/repo``) -- always the current working tree;
* run TLC on a specification of ``/verif/spec`` and parse what it reports;
* collect verdicts, replay files, known findings and evidence.

Exit-code contract (see MANIFEST.json): 0 = property held on everything
explored, 1 = at least one ``VIOLATION`` line, 2 = the machinery itself failed.
"""
import hashlib
import json
import os
import re
import shutil
import subprocess
import sys
import time
import traceback
import warnings

VERIF = os.path.dirname(os.path.dirname(os.path.abspath(__file__)))
REPO = os.environ.get("HVSRPY_VERIF_REPO", "/repo")
SPEC = os.path.join(VERIF, "spec")
# scratch directory of this run; concurrent runs of the same check (selftest, mutation campaign, seed sweeps) get their own
WORK = os.environ.get("HVSRPY_VERIF_WORK") or os.path.join(VERIF, "work")
# evidence / replays of a run against a scratch copy of the repository (selftest, seeded changes) do not
# overwrite those of the tree under verification
_SCRATCH = os.path.realpath(REPO) != "/repo"
EVID = os.path.join(WORK, "evidence-scratch") if _SCRATCH else os.path.join(VERIF, "evidence")
REPLAYS = os.path.join(WORK, "replays-scratch") if _SCRATCH else os.path.join(VERIF, "replays")
TLA_CP = "/opt/veriftools/tla/tla2tools.jar:/opt/veriftools/tla/CommunityModules-deps.jar"

os.environ.setdefault("HVSRPY_VERIF", "1")
os.environ.setdefault("MPLBACKEND", "Agg")
os.environ.setdefault("PYTHONHASHSEED", "0")


def import_hvsrpy():
    """Import hvsrpy from the tree under test (never an installed copy)."""
    if REPO not in sys.path:
        sys.path.insert(0, REPO)
    warnings.filterwarnings("ignore", category=SyntaxWarning)
    import hvsrpy  # noqa
    got = os.path.dirname(os.path.dirname(os.path.abspath(hvsrpy.__file__)))
    if os.path.realpath(got) != os.path.realpath(REPO):
        raise MachineryError(f"hvsrpy imported from {got}, expected {REPO}")
    return hvsrpy


class MachineryError(Exception):
    pass


def workdir(name):
    d = os.path.join(WORK, name)
    shutil.rmtree(d, ignore_errors=True)
    os.makedirs(d, exist_ok=True)
    return d


# --------------------------------------------------------------------------
# TLC
# --------------------------------------------------------------------------

JSON_STR = re.compile(r'"((?:\{|\[)(?:[^"\\]|\\.)*(?:\}|\]))"', re.S)


class TlcResult:
    def __init__(self):
        self.ok = False            # "No error has been found"
        self.error = None          # first "Error: ..." line
        self.violated = None       # name of violated invariant / property
        self.generated = 0
        self.distinct = 0
        self.depth = 0
        self.wall_s = 0.0
        self.stdout = ""
        self.cases = []            # json objects printed with PrintT(ToJson(..))
        self.coverage = {}         # action name -> (distinct, generated)
        self.cmd = ""

    def summary(self):
        return dict(ok=self.ok, violated=self.violated, generated=self.generated,
                    distinct=self.distinct, depth=self.depth, wall_s=round(self.wall_s, 2),
                    cmd=self.cmd)


def tlc(module, cfg=None, workers=None, timeout=900, coverage=False, simulate=None,
        env=None, extra=(), workname=None, deadlock=None, heap="6g", parse_json=True,
        dfid=None):
    """Run TLC on spec/<module>.tla with spec/<cfg>.cfg (cwd = spec dir)."""
    cfg = cfg or module
    workers = workers or min(16, os.cpu_count() or 4)
    wname = workname or f"tlc-{cfg}-{os.getpid()}"
    meta = workdir(wname)
    # (TLC leaves an empty tlc-<n> directory in java.io.tmpdir per run: keep them inside the run's own scratch directory)
    cmd = ["java", "-XX:+UseParallelGC", "-Xss256m", f"-Xmx{heap}", f"-Djava.io.tmpdir={meta}", "-cp", TLA_CP, "tlc2.TLC",
           "-workers", str(workers), "-metadir", meta, "-noGenerateSpecTE",
           "-config", f"{cfg}.cfg"]
    if coverage:
        cmd += ["-coverage", "1"]
    if simulate:
        cmd += ["-simulate", simulate]
    if deadlock is False:
        cmd += ["-deadlock"]
    if dfid:
        cmd += ["-dfid", str(dfid)]
    cmd += list(extra) + [f"{module}.tla"]
    e = dict(os.environ)
    if env:
        e.update({k: str(v) for k, v in env.items()})
    res = TlcResult()
    res.cmd = " ".join(cmd)
    t0 = time.time()
    try:
        p = subprocess.run(cmd, cwd=SPEC, env=e, stdout=subprocess.PIPE, stderr=subprocess.STDOUT,
                           timeout=timeout, text=True)
        out = p.stdout
    except subprocess.TimeoutExpired as ex:
        out = (ex.stdout or b"")
        if isinstance(out, bytes):
            out = out.decode("utf8", "replace")
        out += "\nError: TIMEOUT\n"
    res.wall_s = time.time() - t0
    res.stdout = out
    shutil.rmtree(meta, ignore_errors=True)
    m = None
    for m in re.finditer(r"(\d+) states generated, (\d+) distinct states found", out):
        pass
    if m:
        res.generated, res.distinct = int(m.group(1)), int(m.group(2))
    m = re.search(r"depth of the complete state graph search is (\d+)", out)
    if m:
        res.depth = int(m.group(1))
    res.ok = "No error has been found" in out or (simulate is not None and "Error:" not in out)
    m = re.search(r"^Error: (.*)$", out, re.M)
    if m:
        res.error = m.group(1).strip()
        res.ok = False
        mm = re.search(r"(?:Invariant|Action property|property) (\S+) is violated", out)
        if mm:
            res.violated = mm.group(1).rstrip(".")
        elif "Deadlock reached" in out:
            res.violated = "Deadlock"
        elif "Temporal properties were violated" in out:
            res.violated = "Temporal"
    if parse_json:
        for mm in JSON_STR.finditer(out):
            try:
                res.cases.append(json.loads(json.loads('"' + mm.group(1) + '"')))
            except Exception:
                pass
    if coverage:
        for mm in re.finditer(r"^<(\w+) line \d+, col \d+ to line \d+, col \d+ of module (\w+)(?: \([\d ]+\))?>: (\d+):(\d+)",
                              out, re.M):
            res.coverage[mm.group(1)] = (int(mm.group(3)), int(mm.group(4)))
    return res


def require_coverage(res, actions, what):
    """non-vacuity: every named action of the specification was taken at least once in this TLC run"""
    missing = [a for a in actions if res.coverage.get(a, (0, 0))[1] == 0]
    if missing:
        raise MachineryError(f"vacuous model-checking run {what}: actions never taken: {missing} (coverage {res.coverage})")
    return {a: dict(distinct=res.coverage[a][0], taken=res.coverage[a][1]) for a in actions}


def require_tlc_ok(res, what):
    if not res.ok:
        tail = "\n".join(res.stdout.splitlines()[-40:])
        raise MachineryError(f"TLC failed on {what}: {res.error}\n{tail}")


# --------------------------------------------------------------------------
# Verdict collection / evidence
# --------------------------------------------------------------------------

def load_known_findings():
    path = os.path.join(VERIF, "known_findings.json")
    if not os.path.exists(path):
        return {"open": [], "fixed": []}
    with open(path) as f:
        return json.load(f)


class Run:
    """One run of one property's check."""

    def __init__(self, pid, argv=None, level="model_checking"):
        import argparse
        ap = argparse.ArgumentParser()
        ap.add_argument("--tier", default=os.environ.get("VERIF_TIER", "quick"))
        ap.add_argument("--replay", default=None)
        ap.add_argument("--seed", type=int, default=int(os.environ.get("VERIF_SEED", "0") or 0))
        a = ap.parse_args(argv)
        self.pid = pid
        self.tier = "thorough" if a.tier == "thorough" else "quick"
        self.seed = a.seed
        self.replay = a.replay
        self.replay_key = None
        if self.replay:
            # --replay <file>: re-run the check at the tier/seed recorded in the replay file and report whether the
            # recorded violation (same key) still occurs: exit 1 iff it does
            rec = json.load(open(self.replay))
            self.replay_key = rec.get("key")
            self.tier = rec.get("tier", self.tier)
            self.seed = rec.get("seed", self.seed)
            print(f"REPLAY of {self.replay}: property={rec.get('property')} key={self.replay_key!r} tier={self.tier} seed={self.seed}")
            print(f"  recorded: {rec.get('description', '')[:500]}")
        self.level = level
        self.t0 = time.time()
        self.violations = []      # (key, description, replay path)
        self.known_hits = {}
        self.violation_keys = {}
        self.files_written = 0
        self.evaluations = 0
        self.nontrivial = set()
        self.samples = []
        self.states = 0
        self.transitions = 0
        self.traces = 0
        self.notes = {}
        self.assumptions = []
        self.tlc_runs = []
        self.drift = 0
        self.ties = 0
        self.inconclusive = 0
        self.known = [k for k in load_known_findings().get("open", []) if k.get("property") == pid]
        os.makedirs(EVID, exist_ok=True)
        os.makedirs(REPLAYS, exist_ok=True)
        if not self.replay and os.path.isdir(REPLAYS):
            for fn in os.listdir(REPLAYS):
                if fn.startswith(pid + "-"):
                    os.remove(os.path.join(REPLAYS, fn))

    @property
    def quick(self):
        return self.tier == "quick"

    # ---- counting -------------------------------------------------------
    def add_tlc(self, res, label):
        self.states += res.distinct
        self.transitions += res.generated
        self.tlc_runs.append(dict(label=label, **res.summary()))

    def case(self, nontrivial_key=None, sample=None, replayed=True):
        self.evaluations += 1
        if replayed:
            self.traces += 1      # one TLC-generated case / transition replayed into the real code
        if nontrivial_key is not None:
            self.nontrivial.add(nontrivial_key if isinstance(nontrivial_key, (str, int, tuple)) else repr(nontrivial_key))
        if sample is not None and len(self.samples) < 6:
            self.samples.append(sample)

    # ---- verdicts -------------------------------------------------------
    def violation(self, key, description, replay):
        """Report a violation. `key` identifies the failing input / call site / history;
        a violation whose key is listed (open) in known_findings.json is reported as
        KNOWN-FINDING instead."""
        for k in self.known:
            if k["key"] == key or (k.get("key_prefix") and key.startswith(k["key_prefix"])):
                if k["key"] not in self.known_hits:
                    self.known_hits[k["key"]] = k
                    print(f"KNOWN-FINDING: property={self.pid} {k['what']}")
                return False
        self.violation_keys[key] = self.violation_keys.get(key, 0) + 1
        if self.violation_keys[key] > 2 or self.files_written >= 200:
            self.violations.append((key, description, None))     # counted, not printed again
            return True
        h = hashlib.sha1((key + description).encode()).hexdigest()[:10]
        path = os.path.join(REPLAYS, f"{self.pid}-{h}.json")
        with open(path, "w") as f:
            json.dump(dict(property=self.pid, key=key, description=description, replay=replay,
                           tier=self.tier, seed=self.seed), f, indent=1, default=_jd)
        self.files_written += 1
        print(f"VIOLATION property={self.pid} replay={path}")
        print(f"  {key}: {description}"[:600])
        self.violations.append((key, description, path))
        return True

    def finish(self, rule, exhaustive=False, extra=None):
        wall = time.time() - self.t0
        cov = dict(
            states=max(self.states, 0),
            transitions=max(self.transitions, 0),
            traces_validated_against_impl=self.traces,
            evaluations=self.evaluations,
            distinct_nontrivial=len(self.nontrivial),
            rule=rule,
            samples=self.samples or [{"note": "no sample recorded"}],
            exhaustive=bool(exhaustive),
            tlc_runs=self.tlc_runs,
            model_drift=self.drift,
            ties=self.ties,
            inconclusive=self.inconclusive,
            known_findings_reproduced=sorted(self.known_hits),
        )
        cov.update(self.notes)
        if extra:
            cov.update(extra)
        ev = dict(property_id=self.pid, tier=self.tier, seed=self.seed, level=self.level,
                  coverage=cov, assumptions=self.assumptions, wall_s=round(wall, 2),
                  violations=len(self.violations))
        with open(os.path.join(EVID, f"{self.pid}.json"), "w") as f:
            json.dump(ev, f, indent=1, default=_jd)
        for k, n in sorted(self.violation_keys.items()):
            print(f"  violation key {k!r}: {n} case(s)")
        print(f"[{self.pid}] tier={self.tier} seed={self.seed} evaluations={self.evaluations} "
              f"nontrivial={len(self.nontrivial)} tlc_states={self.states} traces={self.traces} "
              f"violations={len(self.violations)} known={len(self.known_hits)} drift={self.drift} "
              f"wall={wall:.1f}s")
        sys.stdout.flush()
        if self.replay_key is not None:
            again = self.violation_keys.get(self.replay_key, 0)
            print(f"REPLAY result: key {self.replay_key!r} {'reproduced ' + str(again) + ' time(s)' if again else 'did not reproduce'}")
            return 1 if again else 0
        return 1 if self.violations else 0


def _jd(o):
    try:
        import numpy as np
        if isinstance(o, np.ndarray):
            return o.tolist()
        if isinstance(o, (np.floating,)):
            return float(o)
        if isinstance(o, (np.integer,)):
            return int(o)
        if isinstance(o, (np.bool_,)):
            return bool(o)
    except Exception:
        pass
    if isinstance(o, (set, frozenset)):
        return sorted(o)
    if isinstance(o, tuple):
        return list(o)
    return repr(o)


def main_wrapper(fn):
    """Run a check's main(); machinery failures exit 2, never 1."""
    try:
        rc = fn()
    except MachineryError as e:
        print(f"MACHINERY-FAILURE: {e}")
        sys.exit(2)
    except SystemExit:
        raise
    except Exception as e:
        traceback.print_exc()
        # An exception that ORIGINATES in the library under verification while the harness drives it with inputs that the
        # specification declares valid is a verdict about the library, not a failure of the machinery: the unchanged tree
        # runs every check to completion, so this can only happen on a changed tree.
        tb = traceback.extract_tb(e.__traceback__)
        lib = os.path.realpath(os.path.join(REPO, "hvsrpy")) + os.sep
        if tb and os.path.realpath(tb[-1].filename).startswith(lib):
            pid = os.path.basename(sys.argv[0]).replace("check_", "").replace(".py", "")
            os.makedirs(REPLAYS, exist_ok=True)
            path = os.path.join(REPLAYS, f"{pid}-library-raised.json")
            where = f"{os.path.relpath(tb[-1].filename, REPO)}:{tb[-1].lineno} in {tb[-1].name}"
            with open(path, "w") as f:
                json.dump(dict(property=pid, key=f"library-raised:{type(e).__name__}", description=f"{type(e).__name__}: {e} raised at {where} "
                               "while the check was driving the library with valid inputs", traceback=traceback.format_exc()), f, indent=1)
            print(f"VIOLATION property={pid} replay={path}")
            print(f"  library-raised:{type(e).__name__}: {e} (at {where}) on inputs the specification declares valid; the check could not continue")
            sys.exit(1)
        print("MACHINERY-FAILURE: unexpected exception in the harness")
        sys.exit(2)
    sys.exit(rc)


# --------------------------------------------------------------------------
# small numeric helpers
# --------------------------------------------------------------------------

def close(a, b, rtol=1e-9, atol=0.0):
    import math
    if a is None or b is None:
        return a is b
    if isinstance(a, float) and math.isnan(a):
        return isinstance(b, float) and math.isnan(b)
    return abs(a - b) <= atol + rtol * max(abs(a), abs(b))
