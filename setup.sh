#!/bin/sh
# offline set-up: nothing to build; create scratch dirs and make sure the TLA+ tools start and the specs parse.
cd /verif || exit 1
mkdir -p work evidence replays
cd spec || exit 1
for m in *.tla; do
  java -cp /opt/veriftools/tla/tla2tools.jar:/opt/veriftools/tla/CommunityModules-deps.jar tla2sany.SANY "$m" >/dev/null 2>&1 || { echo "SANY failed on $m"; exit 1; }
done
echo "setup ok"
