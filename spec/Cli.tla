--------------------------------- MODULE Cli ---------------------------------
(* C19: the command line interface processes a batch of files with a pool of
   worker processes.  multiprocessing.Pool.starmap cuts the task list into
   consecutive chunks of  chunksize = max(1, ntasks \div nproc)  tasks; a chunk is
   pickled as a whole, so the tasks of one chunk share ONE unpickled settings
   object inside the worker that takes it.
     Files   : sequence of file names in command-line order
     Need[f] : FFT length class file f needs when processed alone
   Take(w)        worker w takes the next chunk off the queue
   ProcessNext(w) worker w processes the next file of its chunk
   SharedPerChunk = TRUE  (implementation tier, today's code):
                    n = max(n stored in the chunk's settings object, Need[f]),
                    written back (FftLengthRatchet across the tasks of a chunk)
   SharedPerChunk = FALSE (property tier): every task starts from freshly loaded
                    settings, n = Need[f].
   Independent:  out[f] = Need[f] for every file, whatever the batch, its order,
   the number of processes and the interleaving of the workers.              *)
EXTENDS Integers, Sequences, FiniteSets, TLC, Json

CONSTANTS Batches,        \* set of file sequences (every order of every batch explored)
          Need, NProcs, SharedPerChunk, Export,
          OptSets,        \* command-line option values <<distribution_mc, distribution_fn>> explored
          SwapOptions,    \* FALSE (design): the writer receives the options as given; TRUE: negative configuration
          AnyChunking     \* TRUE (property tier): ANY chunk size 1..ntasks - the property speaks of "the chunking they induce",
                          \* it does not fix which one (ceil instead of floor is as good); FALSE: today's max(1, ntasks \div nproc)

VARIABLES Files, NProc, opts,  \* chosen in Init, constant along a behaviour
          csz                  \* the chunk size, chosen in Init as well

NTasks    == Len(Files)
TodayChunkSize == IF NTasks \div NProc >= 1 THEN NTasks \div NProc ELSE 1
ChunkSize == csz
NChunks   == (NTasks + ChunkSize - 1) \div ChunkSize
Chunk(c)  == SubSeq(Files, (c - 1) * ChunkSize + 1, IF c * ChunkSize <= NTasks THEN c * ChunkSize ELSE NTasks)
NWorkers  == IF NTasks < NProc THEN NTasks ELSE NProc
Workers   == 1..NWorkers

VARIABLES nextChunk,   \* index of the next chunk on the queue
          cur,         \* cur[w] = <<chunk index, position>> or <<0, 0>> when idle
          chunkN,      \* chunkN[c] = FFT length stored in the settings object of chunk c
          out,         \* out[f] = FFT length the file was processed with (0 = not yet written)
          wrote        \* wrote[f] = the <<distribution_mc, distribution_fn>> the result of f was written with
vars == <<Files, NProc, opts, csz, nextChunk, cur, chunkN, out, wrote>>

FileSet == { Files[i] : i \in 1..NTasks }
Init == /\ Files \in Batches /\ NProc \in NProcs /\ opts \in OptSets
        /\ csz \in (IF AnyChunking THEN 1..Len(Files) ELSE {IF Len(Files) \div NProc >= 1 THEN Len(Files) \div NProc ELSE 1})
        /\ wrote = [f \in FileSet |-> <<>>]
        /\ nextChunk = 1
        /\ cur = [w \in Workers |-> <<0, 0>>]
        /\ chunkN = [c \in 1..NChunks |-> 0]
        /\ out = [f \in FileSet |-> 0]

Take(w) == /\ cur[w][1] = 0 /\ nextChunk <= NChunks
           /\ cur' = [cur EXCEPT ![w] = <<nextChunk, 1>>]
           /\ nextChunk' = nextChunk + 1
           /\ UNCHANGED <<chunkN, out, wrote, Files, NProc, opts, csz>>

ProcessNext(w) ==
    LET c == cur[w][1]
        k == cur[w][2]
    IN  /\ c # 0
        /\ LET f == Chunk(c)[k]
               n == IF SharedPerChunk /\ chunkN[c] > Need[f] THEN chunkN[c] ELSE Need[f]
           IN  /\ out' = [out EXCEPT ![f] = n]
               /\ wrote' = [wrote EXCEPT ![f] = IF SwapOptions THEN <<opts[2], opts[1]>> ELSE opts]
               /\ chunkN' = [chunkN EXCEPT ![c] = IF SharedPerChunk THEN n ELSE @]
        /\ cur' = [cur EXCEPT ![w] = IF k < Len(Chunk(c)) THEN <<c, k + 1>> ELSE <<0, 0>>]
        /\ UNCHANGED <<nextChunk, Files, NProc, opts, csz>>

TakeAny == \E w \in Workers : Take(w)
ProcessAny == \E w \in Workers : ProcessNext(w)
Next == TakeAny \/ ProcessAny
MaxProc == 3
Spec == Init /\ [][Next]_vars /\ \A w \in 1..MaxProc : WF_vars(w \in Workers /\ Take(w)) /\ WF_vars(w \in Workers /\ ProcessNext(w))

AllWritten  == \A f \in FileSet : out[f] # 0
Independent == \A f \in FileSet : out[f] # 0 => out[f] = Need[f]
\* every result is written with the option values of the command line, each in its own place
OptionsReachWriter == \A f \in FileSet : out[f] # 0 => wrote[f] = opts
Terminates  == <>AllWritten
\* every file is processed exactly once, by the chunk that contains it
ChunksPartition == \A i \in 1..NTasks : \E c \in 1..NChunks : \E k \in 1..Len(Chunk(c)) :
                      Chunk(c)[k] = Files[i] /\ (c - 1) * ChunkSize + k = i
ExportDone == (Export /\ AllWritten /\ \A w \in Workers : cur[w][1] = 0) =>
    PrintT(ToJson([files |-> Files, nproc |-> NProc, opts |-> opts, chunksize |-> ChunkSize, out |-> [i \in 1..NTasks |-> out[Files[i]]]]))

\* model values: every order of every sub-batch (with at least 2 files) of a pool of files
RECURSIVE PermsOf(_)
PermsOf(S) == IF S = {} THEN {<<>>} ELSE UNION { { <<x>> \o p : p \in PermsOf(S \ {x}) } : x \in S }
AllBatches(pool) == UNION { PermsOf(S) : S \in { T \in SUBSET pool : Cardinality(T) >= 2 } }
Pool3 == {"big1", "small1", "small2"}
Pool4 == {"big1", "big2", "small1", "small2"}
\* a second pool with files of another FORMAT: two SAF files (one with a NORTH_ROT header line, one without) and a miniSEED file
PoolS == {"saf1", "saf2", "small1"}
Batches3 == AllBatches(Pool3) \cup AllBatches(PoolS)
Batches4 == AllBatches(Pool4)
OptsAll == { <<"lognormal", "lognormal">>, <<"normal", "lognormal">>, <<"lognormal", "normal">>, <<"normal", "normal">> }
OptsDefault == { <<"lognormal", "lognormal">> }
NeedDef == [f \in {"big1", "big2", "small1", "small2", "small3", "saf1", "saf2"} |-> IF f \in {"big1", "big2"} THEN 2 ELSE 1]
=============================================================================
