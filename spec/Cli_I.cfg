CONSTANTS
  Batches <- Batches3
  Need <- NeedDef
  NProcs = {1, 2, 3}
  SharedPerChunk = TRUE
  Export = TRUE
SPECIFICATION Spec
INVARIANT Independent
INVARIANT ChunksPartition
PROPERTY Terminates
CONSTRAINT ExportDone
CHECK_DEADLOCK FALSE
