CONSTANTS
  Batches <- Batches3
  Need <- NeedDef
  NProcs = {1, 2, 3}
  SharedPerChunk = TRUE
  AnyChunking = FALSE
  OptSets <- OptsDefault
  SwapOptions = FALSE
  Export = TRUE
SPECIFICATION Spec
INVARIANT Independent
INVARIANT ChunksPartition
INVARIANT OptionsReachWriter
PROPERTY Terminates
CONSTRAINT ExportDone
CHECK_DEADLOCK FALSE
