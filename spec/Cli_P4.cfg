CONSTANTS
  Batches <- Batches4
  Need <- NeedDef
  NProcs = {1, 2, 3}
  SharedPerChunk = FALSE
  AnyChunking = TRUE
  OptSets <- OptsDefault
  SwapOptions = FALSE
  Export = FALSE
SPECIFICATION Spec
INVARIANT Independent
INVARIANT ChunksPartition
INVARIANT OptionsReachWriter
PROPERTY Terminates
CONSTRAINT ExportDone
CHECK_DEADLOCK FALSE
