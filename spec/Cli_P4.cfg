CONSTANTS
  Batches <- Batches4
  Need <- NeedDef
  NProcs = {1, 2, 3}
  SharedPerChunk = FALSE
  Export = FALSE
SPECIFICATION Spec
INVARIANT Independent
INVARIANT ChunksPartition
PROPERTY Terminates
CONSTRAINT ExportDone
CHECK_DEADLOCK FALSE
