CONSTANTS
  Batches <- Batches3
  Need <- NeedDef
  NProcs = {1, 2, 3}
  SharedPerChunk = FALSE
  AnyChunking = FALSE
  OptSets <- OptsAll
  SwapOptions = TRUE
  Export = FALSE
SPECIFICATION Spec
INVARIANT Independent
INVARIANT ChunksPartition
INVARIANT OptionsReachWriter
PROPERTY Terminates
CONSTRAINT ExportDone
CHECK_DEADLOCK FALSE
