---------------------------- MODULE ExactStats ----------------------------
(* Textbook estimators in exact rational arithmetic (properties C05, C11).
   Values are integers: under the normal assumption they are the values
   themselves, under the lognormal assumption they are the exponents k of
   values e^(k/q) (log-mean, log-variance are then the same rationals divided
   by q resp. q^2, and medians / +-n sigma bounds are exp() of rationals).   *)
EXTENDS Rat, FiniteSetsExt

Sum1(A, x)    == FoldSet(LAMBDA w, acc : acc + x[w], 0, A)
Sum2(A, x, y) == FoldSet(LAMBDA w, acc : acc + x[w] * y[w], 0, A)

Mean(A, x) == Q(Sum1(A, x), Cardinality(A))

(* sample covariance with the n-1 denominator: (n Sxy - Sx Sy) / (n (n-1)) *)
Cov1(A, x, y) == LET n == Cardinality(A)
                 IN  Q(n * Sum2(A, x, y) - Sum1(A, x) * Sum1(A, y), n * (n - 1))
Var1(A, x) == Cov1(A, x, x)

(* ---- Cheng et al. (2020) azimuthal weighting ---------------------------
   AS : sequence over azimuths of the accepted window sets; x[a][w] integer.
   Every accepted window of azimuth a has weight 1 / (NA * |AS[a]|).         *)
RSumOver(S, f(_)) == FoldSet(LAMBDA e, acc : RAdd(f(e), acc), R(0), S)

WMean(AS, x) ==
    LET NA == Len(AS)
    IN  RDiv(RSumOver(1..NA, LAMBDA a : Mean(AS[a], x[a])), R(NA))

WSumW2(AS) ==
    LET NA == Len(AS)
    IN  RSumOver(1..NA, LAMBDA a : Q(1, NA * NA * Cardinality(AS[a])))

(* sum_w w (x - mx)(y - my) / (1 - sum w^2) *)
WCov(AS, x, y) ==
    LET NA == Len(AS)
        mx == WMean(AS, x)
        my == WMean(AS, y)
        num == RSumOver(1..NA, LAMBDA a :
                  RMul(Q(1, NA * Cardinality(AS[a])),
                       RSumOver(AS[a], LAMBDA w : RMul(RSub(R(x[a][w]), mx), RSub(R(y[a][w]), my)))))
    IN  RDiv(num, RSub(R(1), WSumW2(AS)))
WVar(AS, x) == WCov(AS, x, x)
=============================================================================
