-------------------------------- MODULE Heap --------------------------------
(* Objects with storage identity and content versions - the common state model
   of C09 (processing has no side effects), C15 (settings objects share nothing)
   and C18 (recordings persist, copies are independent).

   A WORLD maps an object id (string) to a record
       [kind |-> string, slots |-> sequence of <<cell, dig>>]
   where `cell` names the mutable storage behind the slot (an alias class:
   two slots have the same cell iff they share memory / are the same Python
   container; 0 = immutable scalar) and `dig` names the slot's content (equal
   integers iff equal content digests).  The harness logs the world before and
   after every operation; the modules extending this one state, per operation,
   which objects may change, which are created on fresh storage and which
   contents must coincide.                                                    *)
EXTENDS Integers, Sequences, FiniteSets, TLC

Ids(w)        == DOMAIN w
Slots(w, o)   == w[o].slots
NSlots(w, o)  == Len(w[o].slots)
Cell(w, o, i) == w[o].slots[i][1]
Dig(w, o, i)  == w[o].slots[i][2]
Cells(w, o)   == { Cell(w, o, i) : i \in 1..NSlots(w, o) } \ {0}
AllCells(w)   == UNION { Cells(w, o) : o \in Ids(w) }
Digs(w, o)    == [i \in 1..NSlots(w, o) |-> Dig(w, o, i)]

\* no two distinct slots anywhere share mutable storage
NoSharing(w) ==
    \A o1, o2 \in Ids(w) : \A i \in 1..NSlots(w, o1), j \in 1..NSlots(w, o2) :
        (Cell(w, o1, i) # 0 /\ Cell(w, o1, i) = Cell(w, o2, j)) => (o1 = o2 /\ i = j)

\* every object outside W survives untouched (same storage, same content)
FrameExcept(pre, post, W) == \A o \in Ids(pre) \ W : o \in Ids(post) /\ post[o] = pre[o]

\* objects of `new` did not exist and sit on storage nobody else has or had
Fresh(pre, post, new) ==
    /\ \A o \in new : o \notin Ids(pre) /\ o \in Ids(post)
    /\ \A o \in new : Cells(post, o) \cap AllCells(pre) = {}
    /\ \A o \in new : \A p \in Ids(post) \ {o} : Cells(post, o) \cap Cells(post, p) = {}
    /\ \A o \in new : \A i, j \in 1..NSlots(post, o) :
          (Cell(post, o, i) # 0 /\ Cell(post, o, i) = Cell(post, o, j)) => i = j

OnlyNew(pre, post, new) == Ids(post) = Ids(pre) \cup new
SameContent(w1, o1, w2, o2) == Digs(w1, o1) = Digs(w2, o2)
SlotSame(w1, o1, w2, o2, S) == \A i \in S : Dig(w1, o1, i) = Dig(w2, o2, i)
ContentUnchanged(pre, post, o) == o \in Ids(post) /\ Digs(post, o) = Digs(pre, o)
=============================================================================
