---------------------------- MODULE HvsrObject ----------------------------
(* State machine of an HVSR result object (HvsrTraditional when NA = 1,
   HvsrAzimuthal when NA > 1): curves, search range, cached peaks, the two
   accept masks, and every public operation that changes them.  Shared by
   C05 (statistics over exactly the accepted windows), C06 (FDWRA), C08 (no
   stale peak after a range update), C11 (azimuthal weights), C12 (write/read
   round trip: the range a reader would see is `mrng`), C13 (time-domain
   rejection masks) and C20 (plots are read-only).

   Grid point j (1..NF) has frequency j*FScale Hz (normal instance) or
   e^(j/QExp) Hz (lognormal instance); curve levels are integers (amplitude =
   level resp. e^(level/QExp)).  All statistics are therefore rationals of the
   indices/levels (ExactStats).

   Tiers: actions take the *result* of the non-deterministic parts as
   parameters (new peaks, FDWRA outcome).  The P tier constrains them by the
   property-level relations (PeakRules!P_Allowed, FdwraP); the I tier picks the
   implementation-shaped value (I_Peak, FdwraI).  Model checking runs the I
   tier and checks I => P; trace validation (TraceHvsrObject) uses the P tier. *)
EXTENDS PeakRules, ExactStats, TLC, Json

CONSTANTS NA,          \* number of azimuths (1 = traditional)
          NW,          \* windows per azimuth
          NF,          \* grid points
          Alphabet,    \* sequence of curves (each a sequence of NF positive integers)
          Ranges,      \* set of <<lo, hi>> search ranges on the half-step lattice
          NSet,        \* set of rationals: FDWRA n
          MaxIts,      \* set of max_iterations values
          TdMasks,     \* set of window sets a time-domain rejection may select
          InitSel,     \* set of curve-id assignments explored (sequence over azimuths of sequences over windows)
          Boxes,       \* set of <<fl, fh, al, ah>>: boxes an analyst may draw in the interactive manual rejection
                       \* (frequency bounds on the half-step lattice, amplitude bounds in half levels, all strict)
          SThr,        \* rational: 0.01 / (Hz per grid step), threshold of |sigma_after - sigma_before| in grid steps
          ZeroExact,   \* TRUE: the instance's frequencies are small multiples of a power of two (grid step 1/64 Hz), so every sum,
                       \* mean and deviation of equal or symmetric peak sets is computed exactly: a quantity that is zero in the
                       \* rationals is computed as 0.0 and the "== 0" guards of the code are decided - the P tier does not leave
                       \* them open
          DFree,       \* TRUE: lognormal fn - the criterion on |mean fn - mean-curve peak| involves exp() of
                       \* rationals and is left open (both outcomes) in the P tier; everything else stays exact
          Export

Az  == 1..NA
Win == 1..NW

VARIABLES cv,     \* cv[a][w]  : index into Alphabet (constant along a behaviour)
          rng,    \* <<lo, hi>>: range the cached peaks were computed with
          mrng,   \* range recorded in the container's meta (what a file would carry)
          kwe,    \* TRUE iff the cached find_peaks_kwargs equal {} (always, after the constructor)
          pk,     \* pk[a][w]  : cached peak grid index, 0 = no peak (NaN)
          vw,     \* vw[a][w]  : valid_window_boolean_mask
          vp,     \* vp[a][w]  : valid_peak_boolean_mask
          last    \* label of the action just taken (arguments and returned value)
vars  == <<cv, rng, mrng, kwe, pk, vw, vp, last>>
svars == <<cv, rng, mrng, kwe, pk, vw, vp>>

Curve(a, w) == Alphabet[cv[a][w]]

-----------------------------------------------------------------------------
(* Peak search over all windows *)

PeaksAllowed(newpk, r) ==
    \A a \in Az, w \in Win : newpk[a][w] \in P_Allowed(Curve(a, w), r[1], r[2])
PeaksI(r) == [a \in Az |-> [w \in Win |-> I_Peak(Curve(a, w), r[1], r[2])]]

\* masks right after a peak search (per azimuth; "all flat keeps the windows")
MaskVP(newpk) == [a \in Az |-> [w \in Win |-> newpk[a][w] # 0]]
MaskVW(newpk) == [a \in Az |-> [w \in Win |->
                    IF \A u \in Win : newpk[a][u] = 0 THEN TRUE ELSE newpk[a][w] # 0]]

-----------------------------------------------------------------------------
(* Accepted sets and statistics of one azimuth (P tier: textbook estimators
   over exactly the accepted windows; a window without a peak never enters
   the resonance statistics) *)

AccFn(a, p, m)  == { w \in Win : m[a][w] /\ p[a][w] # 0 }
AccCv(a, m)     == { w \in Win : m[a][w] }
PkIdx(a, p)     == [w \in Win |-> p[a][w]]
PkAmp(a, p)     == [w \in Win |-> IF p[a][w] = 0 THEN 0 ELSE Curve(a, w)[p[a][w]]]
Level(a, j)     == [w \in Win |-> Curve(a, w)[j]]
SumCurve(a, A)  == [j \in 1..NF |-> Sum1(A, Level(a, j))]

\* property-level peak set of the mean curve of azimuth a over windows A with range r
McPeaksP(a, A, r) == PT_Allowed(SumCurve(a, A), r[1], r[2])
McPeakI(a, A, r)  == I_Peak(SumCurve(a, A), r[1], r[2])

-----------------------------------------------------------------------------
(* FDWRA (Cox et al. 2020) on one azimuth.  Returns a set of outcomes
   [st, it, vw, vp]; st = "undef" when the published algorithm has nothing to
   say (fewer than two windows with a peak, or a mean curve without a peak -
   the real code then fails or degenerates to NaNs and is not judged).
   Under the normal assumption for fn every decision is exact:
     inside the bounds      <=>  (pk - mu)^2 < n^2 var
     |s_after - s_before|   <   0.01  by squaring (Rat!SqrtDiffLt)
   mode "P": exact ties are kept as both outcomes and the mean-curve peak is
             any allowed one;  mode "I": a peak exactly on a bound is kept (not
             "outside"), convergence comparisons strict on the exact values,
             first mean-curve peak (what IEEE arithmetic gives when no tie is
             present).                                                       *)

Hundredth == Q(1, 100)

InsideLt(i, mu, n, var) == RLt(RSq(RSub(R(i), mu)), RMul(RSq(n), var))
InsideEq(i, mu, n, var) == REq(RSq(RSub(R(i), mu)), RMul(RSq(n), var))

McChoices(mode, a, A, r) ==
    IF mode = "P" THEN McPeaksP(a, A, r) ELSE {McPeakI(a, A, r)}

\* the sets of windows that may remain accepted after one rejection pass
KeepChoices(mode, a, p, cur, mu, n, var) ==
    LET sure == { w \in cur : p[a][w] # 0 /\ InsideLt(p[a][w], mu, n, var) }
        edge == { w \in cur : p[a][w] # 0 /\ InsideEq(p[a][w], mu, n, var) }
        \* windows with the SAME peak get the same floating-point verdict at a bound: the open choice is per peak value, not per window
        groups == { { w \in edge : p[a][w] = v } : v \in { p[a][w] : w \in edge } }
        \* (ZeroExact and a zero variance: the bounds ARE the mean and every peak IS the mean, exactly - a peak on the bound is not outside it)
    IN  IF mode = "P" /\ ~(ZeroExact /\ RIsZero(var)) THEN { sure \cup UNION G : G \in SUBSET groups } ELSE {sure \cup edge}

\* decision of one iteration for a given pair of mean-curve peaks: the set of possible verdicts
\* ("stop" = return now, "cont" = iterate again)
Verdicts(mode, mub, varb, mua, vara, mcb, mca) ==
    LET db == RAbs(RSub(mub, R(mcb)))
    IN  \* the guards against 0/0: the relative change is undefined in the published algorithm; the code
        \* returns.  Whether |mean fn - mean-curve peak| of two exactly equal quantities is *computed* as zero
        \* is a rounding matter (mean(0.08, 0.06, 0.04) # 0.06 in binary), so the P tier leaves the verdict open
        \* there, like every other exact tie.  The same holds for a zero variance (all peaks equal: the mean of three times
        \* 0.006 is not 0.006 in binary, the standard deviation comes out as 1e-19): the code's "== 0" guards may or may not fire.
        IF RIsZero(varb) \/ RIsZero(vara) \/ RIsZero(db) THEN (IF mode = "P" /\ ~ZeroExact THEN {"stop", "cont"} ELSE {"stop"})
        ELSE
        LET da   == RAbs(RSub(mua, R(mca)))
            dd   == RDiv(RAbs(RSub(da, db)), db)
            dLt  == RLt(dd, Hundredth)
            dEq  == REq(dd, Hundredth)
            sLt  == SqrtDiffLt(vara, varb, SThr)
            sEq  == SqrtDiffEq(vara, varb, SThr)
            conv == dLt /\ sLt
            tie  == (dLt \/ dEq) /\ (sLt \/ sEq) /\ ~conv
        IN  IF DFree /\ mode = "P" THEN (IF sLt \/ sEq THEN {"stop", "cont"} ELSE {"cont"})
            ELSE IF conv THEN {"stop"}
            ELSE IF tie /\ mode = "P" THEN {"stop", "cont"}
            ELSE {"cont"}

RECURSIVE FdwraIter(_, _, _, _, _, _, _, _, _)
FdwraIter(mode, a, p, r, n, maxit, k, mw, mp) ==
    \* mw, mp : current masks of azimuth a (functions Win -> BOOLEAN)
    LET Afn  == { w \in Win : mp[w] /\ p[a][w] # 0 }
        Acv  == { w \in Win : mw[w] }
        cur  == { w \in Win : mp[w] }
        undef == {[st |-> "undef", it |-> k, vw |-> mw, vp |-> mp]}
    IN
    IF Cardinality(Afn) < 2 THEN undef
    ELSE
    LET mub  == Mean(Afn, PkIdx(a, p))
        varb == Var1(Afn, PkIdx(a, p))
        McB  == McChoices(mode, a, Acv, r)
    IN
    (IF 0 \in McB THEN undef ELSE {}) \cup
    UNION {
        LET mw2 == [w \in Win |-> IF w \in cur THEN w \in keep ELSE mw[w]]
            mp2 == [w \in Win |-> IF w \in cur THEN w \in keep ELSE mp[w]]
            A2  == { w \in Win : mp2[w] /\ p[a][w] # 0 }
            Ac2 == { w \in Win : mw2[w] }
            und2 == {[st |-> "undef", it |-> k, vw |-> mw2, vp |-> mp2]}
        IN
        IF McB \ {0} = {} THEN {}
        ELSE IF Cardinality(A2) < 2 THEN und2
        ELSE
        LET mua  == Mean(A2, PkIdx(a, p))
            vara == Var1(A2, PkIdx(a, p))
            McA  == McChoices(mode, a, Ac2, r)
            done == {[st |-> "ok", it |-> k, vw |-> mw2, vp |-> mp2]}
            vs   == UNION { Verdicts(mode, mub, varb, mua, vara, mcb, mca) : mcb \in McB \ {0}, mca \in McA \ {0} }
        IN  (IF 0 \in McA THEN und2 ELSE {})
            \cup (IF "stop" \in vs THEN done ELSE {})
            \cup (IF "cont" \in vs
                  THEN (IF k >= maxit THEN done ELSE FdwraIter(mode, a, p, r, n, maxit, k + 1, mw2, mp2))
                  ELSE {})
        : keep \in KeepChoices(mode, a, p, cur, mub, n, varb) }

Fdwra1(mode, a, p, r, n, maxit, mw, mp) == FdwraIter(mode, a, p, r, n, maxit, 1, mw, mp)

-----------------------------------------------------------------------------
(* Actions.  Parameters carry the outcome of the non-deterministic parts. *)

Init ==
    /\ cv \in InitSel
    /\ rng = <<NoEnd, NoEnd>> /\ mrng = <<NoEnd, NoEnd>> /\ kwe = TRUE
    /\ pk = [a \in Az |-> [w \in Win |-> I_Peak(Alphabet[cv[a][w]], NoEnd, NoEnd)]]
    /\ vp = [a \in Az |-> [w \in Win |-> pk[a][w] # 0]]
    /\ vw = [a \in Az |-> [w \in Win |->
                IF \A u \in Win : pk[a][u] = 0 THEN TRUE ELSE pk[a][w] # 0]]
    /\ last = [op |-> "Init"]

\* update_peaks_bounded(r, find_peaks_kwargs = {} if kw else None)
\* The cached peaks are kept only when range AND keyword arguments compare
\* equal to the cached ones; the cache stores {} for None, so a call with None
\* never hits it (named deviation: RangeUnchangedNoOp).  The container's meta is
\* rewritten before the shortcut is consulted for azimuthal objects (NA > 1)
\* and together with the cache for traditional ones - same value either way.
UpdateRangeP(r, kw, newpk) ==
    /\ mrng' = r
    /\ kwe' = kwe
    /\ IF r = rng /\ kw /\ kwe
       THEN UNCHANGED <<rng, pk, vw, vp>>          \* RangeUnchangedNoOp
       ELSE /\ PeaksAllowed(newpk, r) = TRUE
            /\ rng' = r /\ pk' = newpk
            /\ vp' = MaskVP(newpk) /\ vw' = MaskVW(newpk)
    /\ UNCHANGED cv

UpdateRange(r, kw) ==          \* I tier, written out (no P check on the step: PeaksCurrent is an invariant)
    /\ mrng' = r /\ kwe' = kwe
    /\ IF r = rng /\ kw /\ kwe
       THEN UNCHANGED <<rng, pk, vw, vp>>
       ELSE LET np == PeaksI(r)
            IN /\ rng' = r /\ pk' = np /\ vp' = MaskVP(np) /\ vw' = MaskVW(np)
    /\ UNCHANGED cv
    /\ last' = [op |-> "UpdateRange", r |-> r, kw |-> kw]

\* sta_lta / maximum_value rejection with an attached object: both masks of
\* every azimuth become the selection (C13)
TdReject(S) ==
    /\ vw' = [a \in Az |-> [w \in Win |-> w \in S]]
    /\ vp' = [a \in Az |-> [w \in Win |-> w \in S]]
    /\ UNCHANGED <<cv, rng, mrng, kwe, pk>>
    /\ last' = [op |-> "TdReject", S |-> S]

\* manual rejection of windows S of azimuth a (both masks cleared, nothing re-accepted)
ManualReject(a, S) ==
    /\ vw' = [vw EXCEPT ![a] = [w \in Win |-> vw[a][w] /\ w \notin S]]
    /\ vp' = [vp EXCEPT ![a] = [w \in Win |-> vp[a][w] /\ w \notin S]]
    /\ UNCHANGED <<cv, rng, mrng, kwe, pk>>
    /\ last' = [op |-> "ManualReject", a |-> a, S |-> S]

\* manual_window_rejection(search range r) driven with one drawn box b and the click on "continue":
\* entry = update_peaks_bounded(r, {}) on the object (cached peaks kept iff the range is unchanged), then every
\* window (of every azimuth) whose curve has a sample strictly inside the box loses both accept flags;
\* nothing is re-accepted by the box.  The figure it draws needs the statistics to be defined before and after.
Hit(a, w, b) == \E j \in 1..NF : 2 * j > b[1] /\ 2 * j < b[2] /\ 2 * Curve(a, w)[j] > b[3] /\ 2 * Curve(a, w)[j] < b[4]
Drawable(a, p, mw, mp, r) ==
    /\ Cardinality({ w \in Win : mp[w] /\ p[a][w] # 0 }) >= 2
    /\ Cardinality({ w \in Win : mw[w] }) >= 2
    /\ 0 \notin McPeaksP(a, { w \in Win : mw[w] }, r)
ManualSession(r, b) ==
    LET noop == r = rng /\ kwe
        p0   == IF noop THEN pk ELSE PeaksI(r)
        w0   == IF noop THEN vw ELSE MaskVW(p0)
        v0   == IF noop THEN vp ELSE MaskVP(p0)
        w1   == [a \in Az |-> [w \in Win |-> w0[a][w] /\ ~Hit(a, w, b)]]
        v1   == [a \in Az |-> [w \in Win |-> v0[a][w] /\ ~Hit(a, w, b)]]
    IN  /\ \A a \in Az : Drawable(a, p0, w0[a], v0[a], r) /\ Drawable(a, p0, w1[a], v1[a], r)
        /\ rng' = r /\ mrng' = r /\ kwe' = kwe /\ pk' = p0
        /\ vw' = w1 /\ vp' = v1
        /\ UNCHANGED cv
        /\ last' = [op |-> "ManualSession", r |-> r, b |-> b]

\* frequency_domain_window_rejection(n, max_iterations, search range r, kw):
\* entry = UpdateRange on every inner object, then the iteration per azimuth.
\* out[a] : outcome of azimuth a.  `metaUpdated`: whether the container's meta
\* records r (traditional objects are their own container).
FdwraP(mode, r, kw, n, maxit, newpk, out, metaUpdated) ==
    LET noop == r = rng /\ kw /\ kwe
        p0   == IF noop THEN pk ELSE newpk
        w0   == IF noop THEN vw ELSE MaskVW(newpk)
        v0   == IF noop THEN vp ELSE MaskVP(newpk)
    IN
    /\ noop \/ PeaksAllowed(newpk, r)
    /\ \A a \in Az : out[a] \in Fdwra1(mode, a, p0, r, n, maxit, w0[a], v0[a])
    /\ \A a \in Az : out[a].st = "ok"
    /\ rng' = r /\ pk' = p0 /\ kwe' = kwe
    /\ vw' = [a \in Az |-> out[a].vw]
    /\ vp' = [a \in Az |-> out[a].vp]
    /\ mrng' = IF metaUpdated THEN r ELSE mrng
    /\ UNCHANGED cv

MaxIt(out) == CHOOSE m \in { out[a].it : a \in Az } : \A a \in Az : out[a].it <= m

Fdwra(r, kw, n, maxit) ==       \* I tier, written out
    LET noop == r = rng /\ kw /\ kwe
        p0   == IF noop THEN pk ELSE PeaksI(r)
        w0   == IF noop THEN vw ELSE MaskVW(p0)
        v0   == IF noop THEN vp ELSE MaskVP(p0)
        out  == [a \in Az |-> CHOOSE o \in Fdwra1("I", a, p0, r, n, maxit, w0[a], v0[a]) : TRUE]
    IN
    /\ \A a \in Az : out[a].st = "ok"
    /\ rng' = r /\ pk' = p0 /\ kwe' = kwe /\ mrng' = r
    /\ vw' = [a \in Az |-> out[a].vw]
    /\ vp' = [a \in Az |-> out[a].vp]
    /\ UNCHANGED cv
    /\ last' = [op |-> "Fdwra", r |-> r, kw |-> kw, n |-> n, mi |-> maxit, it |-> MaxIt(out)]

Next ==
    \/ \E r \in Ranges, kw \in BOOLEAN : UpdateRange(r, kw)
    \/ \E S \in TdMasks : TdReject(S)
    \/ \E a \in Az, w \in Win : ManualReject(a, {w})
    \/ \E r \in Ranges, b \in Boxes : ManualSession(r, b)
    \/ \E r \in Ranges, kw \in BOOLEAN, n \in NSet, mi \in MaxIts : Fdwra(r, kw, n, mi)

Spec == Init /\ [][Next]_vars

-----------------------------------------------------------------------------
(* Properties checked by TLC in every reachable state / on every step *)

TypeOK ==
    /\ \A a \in Az, w \in Win : pk[a][w] \in 0..NF
    /\ rng \in Ranges \cup {<<NoEnd, NoEnd>>}

\* C08: no stale peak - the cached peaks always answer the current range
PeaksCurrent == PeaksAllowed(pk, rng)

\* C08/C05: right after any history, a window whose peak search found nothing
\* is never *counted* : the accepted-for-fn set only holds windows with a peak
AccFnHavePeaks == \A a \in Az : \A w \in AccFn(a, pk, vp) : pk[a][w] # 0

\* C05 (implementation-shaped accessor = estimator over {w : vp[w]} without
\* looking at the peak): the two agree iff no accepted window lacks a peak.
\* Violated today after a time-domain rejection re-accepts a peak-less window
\* (negative configuration HvsrObject_neg; see known findings).
NoPeaklessAccepted == \A a \in Az, w \in Win : vp[a][w] => pk[a][w] # 0

\* C12: what a reader would re-search with equals what the peaks were computed with
MetaRangeCurrent == mrng = rng

\* C06 on every Fdwra step: never re-accepts (w.r.t. the state right after the
\* entry peak search), bounded iteration count, I outcome is a P outcome
FdwraStep ==
    [][ last'.op = "Fdwra" =>
          LET r == last'.r
              noop == r = rng /\ last'.kw /\ kwe
              p0 == IF noop THEN pk ELSE PeaksI(r)
              v0 == IF noop THEN vp ELSE MaskVP(p0)
              w0 == IF noop THEN vw ELSE MaskVW(p0)
          IN /\ \A a \in Az, w \in Win : (vp'[a][w] => v0[a][w]) /\ (vw'[a][w] => w0[a][w])
             /\ last'.it >= 1 /\ last'.it <= last'.mi
             /\ \A a \in Az :
                   [st |-> "ok", it |-> (CHOOSE o \in Fdwra1("I", a, p0, r, last'.n, last'.mi, w0[a], v0[a]) : TRUE).it,
                    vw |-> vw'[a], vp |-> vp'[a]] \in Fdwra1("P", a, p0, r, last'.n, last'.mi, w0[a], v0[a])
    ]_vars

\* manual rejection never re-accepts (w.r.t. the state after its entry peak search) and hits exactly the boxed windows
ManualStep == [][ last'.op = "ManualSession" =>
                    \A a \in Az, w \in Win : (~vw'[a][w] \/ ~Hit(a, w, last'.b)) /\ (~vp'[a][w] \/ ~Hit(a, w, last'.b)) ]_vars

\* C13: after a time-domain rejection both masks equal the selection on every azimuth
TdStep == [][ last'.op = "TdReject" =>
                \A a \in Az, w \in Win : vw'[a][w] = (w \in last'.S) /\ vp'[a][w] = (w \in last'.S) ]_vars

\* curves never change
CurvesFixed == [][cv' = cv]_vars

-----------------------------------------------------------------------------
(* Exact statistics of a state (P tier), exported for the replay *)

RatOrNull(ok, x) == IF ok THEN x ELSE <<0, 0>>

AzStats(a) ==
    LET A   == AccFn(a, pk, vp)
        C   == AccCv(a, vw)
        n   == Cardinality(A)
        m   == Cardinality(C)
        ok  == n >= 2
        okc == m >= 2
    IN [ nfn  |-> n, ncv |-> m,
         mf   |-> RatOrNull(ok, Mean(A, PkIdx(a, pk))),
         vf   |-> RatOrNull(ok, Var1(A, PkIdx(a, pk))),
         ma   |-> RatOrNull(ok, Mean(A, PkAmp(a, pk))),
         va   |-> RatOrNull(ok, Var1(A, PkAmp(a, pk))),
         cfa  |-> RatOrNull(ok, Cov1(A, PkIdx(a, pk), PkAmp(a, pk))),
         mc   |-> IF okc THEN [j \in 1..NF |-> Mean(C, Level(a, j))] ELSE <<>>,
         vc   |-> IF okc THEN [j \in 1..NF |-> Var1(C, Level(a, j))] ELSE <<>>,
         mcp  |-> IF okc THEN McPeaksP(a, C, rng) ELSE {},
         mcpi |-> IF okc THEN McPeakI(a, C, rng) ELSE 0 ]

\* the weighted mean curve scaled to integers (common denominator NA * prod |CS[a]|), for the peak rules
WScaledCurve(CS) ==
    LET D == NA * FoldSet(LAMBDA a, acc : acc * Cardinality(CS[a]), 1, Az)
    IN  [j \in 1..NF |-> LET m == WMean(CS, [a \in Az |-> Level(a, j)]) IN m[1] * (D \div m[2])]

\* azimuthal (Cheng et al. 2020): every azimuth weighs the same
WStats ==
    LET AS  == [a \in Az |-> AccFn(a, pk, vp)]
        CS  == [a \in Az |-> AccCv(a, vw)]
        ok  == \A a \in Az : Cardinality(AS[a]) >= 1
        okc == \A a \in Az : Cardinality(CS[a]) >= 1
        pi  == [a \in Az |-> PkIdx(a, pk)]
        pa  == [a \in Az |-> PkAmp(a, pk)]
        tot == FoldSet(LAMBDA a, acc : acc + Cardinality(AS[a]), 0, Az)
        totc == FoldSet(LAMBDA a, acc : acc + Cardinality(CS[a]), 0, Az)
        ok3 == ok /\ tot >= 2
        okc3 == okc /\ totc >= 2
    IN [ ok   |-> ok3, okc |-> okc3,
         mf   |-> RatOrNull(ok3, WMean(AS, pi)),
         vf   |-> RatOrNull(ok3, WVar(AS, pi)),
         ma   |-> RatOrNull(ok3, WMean(AS, pa)),
         va   |-> RatOrNull(ok3, WVar(AS, pa)),
         cfa  |-> RatOrNull(ok3, WCov(AS, pi, pa)),
         mc   |-> IF okc3 THEN [j \in 1..NF |-> WMean(CS, [a \in Az |-> Level(a, j)])] ELSE <<>>,
         vc   |-> IF okc3 THEN [j \in 1..NF |-> WVar(CS, [a \in Az |-> Level(a, j)])] ELSE <<>>,
         mcp  |-> IF okc3 THEN PT_Allowed(WScaledCurve(CS), rng[1], rng[2]) ELSE {},
         mcpi |-> IF okc3 THEN I_Peak(WScaledCurve(CS), rng[1], rng[2]) ELSE 0 ]

-----------------------------------------------------------------------------
(* C11: algebraic content of the azimuthal weighting, checked in every reachable state *)

FnSets == [a \in Az |-> AccFn(a, pk, vp)]
FnIdx  == [a \in Az |-> PkIdx(a, pk)]
FnOK   == (\A a \in Az : FnSets[a] # {}) /\ FoldSet(LAMBDA a, acc : acc + Cardinality(FnSets[a]), 0, Az) >= 2

\* one azimuth: every weighted statistic is the traditional one
SingleAzimuthIsTraditional ==
    (NA = 1 /\ Cardinality(FnSets[1]) >= 2) =>
        /\ WMean(FnSets, FnIdx) = Mean(FnSets[1], FnIdx[1])
        /\ WVar(FnSets, FnIdx)  = Var1(FnSets[1], FnIdx[1])
        /\ WCov(FnSets, FnIdx, [a \in Az |-> PkAmp(a, pk)]) = Cov1(FnSets[1], FnIdx[1], PkAmp(1, pk))

\* equally many accepted windows on every azimuth: the unweighted statistic of the pooled windows
Pooled == { <<a, w>> : a \in Az, w \in Win }
PooledAcc == { q \in Pooled : q[2] \in FnSets[q[1]] }
PooledIdx == [q \in Pooled |-> pk[q[1]][q[2]]]
EqualCountsIsPooled ==
    (FnOK /\ \A a, b \in Az : Cardinality(FnSets[a]) = Cardinality(FnSets[b])) =>
        /\ WMean(FnSets, FnIdx) = Mean(PooledAcc, PooledIdx)
        /\ WVar(FnSets, FnIdx)  = Var1(PooledAcc, PooledIdx)

\* the order of the azimuths is irrelevant
Rev(f) == [a \in Az |-> f[NA + 1 - a]]
AzimuthOrderIrrelevant ==
    FnOK => /\ WMean(Rev(FnSets), Rev(FnIdx)) = WMean(FnSets, FnIdx)
            /\ WVar(Rev(FnSets), Rev(FnIdx))  = WVar(FnSets, FnIdx)

\* the mean is the plain average of the per-azimuth means; total weight is one
MeanOfAzimuthMeans ==
    FnOK => WMean(FnSets, FnIdx) = RDiv(RSumOver(Az, LAMBDA a : Mean(FnSets[a], FnIdx[a])), R(NA))

St == [r |-> rng, m |-> mrng, pk |-> pk, vw |-> vw, vp |-> vp]

ExportState ==
    Export => PrintT(ToJson([k |-> "S", cv |-> cv, s |-> St,
                             az |-> [a \in Az |-> AzStats(a)], w |-> WStats]))

ExportTrans ==
    Export => PrintT(ToJson([k |-> "T", cv |-> cv, s |-> St, a |-> last', t |-> [r |-> rng', m |-> mrng', pk |-> pk', vw |-> vw', vp |-> vp']]))

View == svars
=============================================================================
