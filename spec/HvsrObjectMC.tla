--------------------------- MODULE HvsrObjectMC ---------------------------
(* Model-checking instances of HvsrObject: alphabets, ranges, scopes. *)
EXTENDS HvsrObject, IOUtils

Alpha6 == << <<1,3,1,1,1,1>>,     \* 1: tent at 2, height 3
             <<1,1,4,1,1,1>>,     \* 2: tent at 3, height 4
             <<1,1,1,2,1,1>>,     \* 3: tent at 4, height 2
             <<1,1,1,1,5,1>>,     \* 4: tent at 5, height 5
             <<1,2,1,3,1,1>>,     \* 5: two peaks (2: height 2, 4: height 3)
             <<1,1,1,1,1,1>>,     \* 6: flat
             <<1,3,3,1,1,1>>,     \* 7: plateau 2-3
             <<1,2,3,4,5,6>> >>   \* 8: monotone
Alpha6a == SubSeq(Alpha6, 1, 6)
Alpha6b == SubSeq(Alpha6, 1, 4)

Alpha8 == << <<1,3,1,1,1,1,1,1>>,   \* 1: tent at 2, height 3
             <<1,1,4,1,1,1,1,1>>,   \* 2: tent at 3, height 4
             <<1,1,1,2,1,1,1,1>>,   \* 3: tent at 4, height 2
             <<1,1,1,1,5,1,1,1>>,   \* 4: tent at 5, height 5
             <<1,1,1,1,1,3,1,1>>,   \* 5: tent at 6, height 3
             <<1,1,1,1,1,1,4,1>>,   \* 6: tent at 7, height 4
             <<1,2,1,1,1,3,1,1>>,   \* 7: two peaks (2: height 2, 6: height 3)
             <<1,1,1,1,1,1,1,1>> >> \* 8: flat
Alpha8a == SubSeq(Alpha8, 1, 7)
\* variant with one tall tent: the arithmetic and the geometric mean curve of a set holding it once next to several
\* medium tents peak at different frequencies (amplitudes e^(level/2)), so the mean-curve distribution matters
Alpha8d == << <<1,6,1,1,1,1,1,1>> >> \o SubSeq(Alpha8, 2, 7)
Ranges8 == { <<NoEnd, NoEnd>>, <<NoEnd, 12>>, <<4, NoEnd>>, <<4, 14>> }
NSetC == { <<1, 1>>, <<3, 2>>, <<2, 1>>, <<3, 1>> }
MaxItsC == {1, 2, 3, 50}

\* NF = 6: half-step lattice 0..14
\* range ends sit on grid points here (even half-steps): snapping ties are the business of Peaks.tla;
\* Ranges6t adds the tie ends for configurations that want them
Ranges6 == { <<NoEnd, NoEnd>>, <<NoEnd, 8>>, <<4, NoEnd>>, <<2, 10>>, <<6, 12>>, <<10, 4>> }
Ranges6s == { <<NoEnd, NoEnd>>, <<NoEnd, 8>>, <<4, NoEnd>>, <<6, 12>> }
Ranges6t == Ranges6 \cup { <<5, NoEnd>>, <<3, 11>> }

\* boxes on NF = 6 grids with levels 1..6: around a tent top, a wide low band, one that hits nothing
Boxes6 == { <<3, 5, 5, 7>>, <<5, 9, 3, 9>>, <<1, 13, 1, 3>>, <<7, 11, 9, 11>>, <<3, 7, 3, 5>> }
NoBoxes == {}
NSetA == { <<1, 1>>, <<2, 1>> }
NSetB == { <<1, 1>>, <<2, 1>>, <<3, 2>> }
MaxItsA == {1, 50}
MaxItsB == {1, 2, 50}
AllMasks == SUBSET Win
InitOne == { [a \in Az |-> [w \in Win |-> w]] }
InitAll == [Az -> [Win -> 1..Len(Alphabet)]]
\* windows in non-decreasing curve id (the time-domain masks break the symmetry only by position)
InitSorted == { f \in InitAll : \A a \in Az : \A w \in 1..(NW-1) : f[a][w] <= f[a][w+1] }
\* seeded sample of the initial assignments (export runs): VERIF_K buckets, bucket VERIF_SEED mod K
\* positional hash of an assignment: base-11 digits in (azimuth, window) order
RECURSIVE HashSeq(_, _)
HashSeq(q, acc) == IF q = <<>> THEN acc ELSE HashSeq(Tail(q), (acc * 11 + Head(q)) % 1000003)
\* ascending sort of a sequence of integers (with repetitions)
RECURSIVE SortedSeqBag(_)
SortedSeqBag(q) ==
    IF q = <<>> THEN <<>>
    ELSE LET i == CHOOSE i \in 1..Len(q) : \A k \in 1..Len(q) : q[i] <= q[k]
         IN  <<q[i]>> \o SortedSeqBag(SubSeq(q, 1, i - 1) \o SubSeq(q, i + 1, Len(q)))
RECURSIVE Flat(_)
Flat(ff) == IF ff = <<>> THEN <<>> ELSE Head(ff) \o Flat(Tail(ff))
HashCv(f) == HashSeq(Flat(f), 7)
\* one assignment in which the windows of an azimuth are pairwise different curves and the azimuths differ
InitDistinct == { [a \in Az |-> [w \in Win |-> (((w - 1) + 2 * (a - 1)) % Len(Alphabet)) + 1]] }

\* (the bucket often holds assignments that repeat a curve; InitDistinct is always added)
InitEnv == LET K == atoi(IOEnv.VERIF_K)
               S == atoi(IOEnv.VERIF_SEED)
           IN { f \in InitAll : (HashCv(f) + S) % K = 0 } \cup InitDistinct
\* all orderings of the multisets whose sorted form falls in the bucket (permutation invariance is
\* then visible across the group); NA = 1 only
SortAsc(q) == SortedSeqBag(q)
InitPermsEnv == LET K == atoi(IOEnv.VERIF_K)
                    S == atoi(IOEnv.VERIF_SEED)
                IN { f \in InitAll : (HashSeq(SortAsc(f[1]), 7) + S) % K = 0 }

\* quick variant: at most about a third of the orderings of each selected multiset
InitPermsEnvQ == { f \in InitPermsEnv : HashCv(f) % 3 = 0 }

\* the orderings of one tall tent (curve 1 of Alpha8d, at grid point 2) and three medium tents (curve 5, at grid point 6)
InitTallMedium == { f \in InitAll : SortAsc(f[1]) = <<1, 5, 5, 5>> }

\* four tents at grid points 2, 3, 5 and 8 (curves 1, 2, 4, 7 of Alpha8 / Alpha8d): unevenly spread peaks - the
\* rejection bounds do not fall on grid points and several passes reject something, so the convergence criteria decide
InitSpread == { f \in InitAll : f[1] \in { <<1, 2, 4, 7>>, <<7, 4, 1, 2>> } }      \* two orderings (outlier last / first)

\* two azimuths that need DIFFERENT numbers of rejection passes (n = 1: windows <<1, 2, 4>> need two passes, <<4, 5, 6>> one), the slower
\* azimuth first and last: the count returned for an azimuthal result is the largest over the azimuths
InitAzDiffer == IF NA = 2 /\ NW = 3 THEN { << <<1, 2, 4>>, <<4, 5, 6>> >>, << <<4, 5, 6>>, <<1, 2, 4>> >> } ELSE {}
InitEnvAz == InitEnv \cup InitAzDiffer

\* window sets that reach the algorithm's zero guards: three equal peaks and an outlier (the standard deviation becomes 0 after the
\* first pass), a symmetric set (mean fn = mean-curve peak), all peaks equal, two equal pairs
InitZero == { f \in InitAll : f[1] \in { <<2, 2, 2, 7>>, <<7, 2, 2, 2>>, <<2, 3, 4, 3>>, <<3, 3, 3, 3>>, <<2, 2, 6, 6>>, <<3, 2, 4, 3>> } }

\* C06-focused next-state relation: rich FDWRA parameters, range updates and time-domain masks only
\* to diversify the states FDWRA starts from
NextC06 ==
    \/ \E r \in Ranges, kw \in BOOLEAN, n \in NSet, mi \in MaxIts : Fdwra(r, kw, n, mi)
    \/ \E r \in Ranges : UpdateRange(r, FALSE)
    \/ \E S \in TdMasks : TdReject(S)
\* interactive manual rejection only (from every initial assignment): the sessions an analyst can chain
\* statistics-focused: only single-window manual rejections and range updates (every per-azimuth accept pattern is reached)
NextRejectOnly ==
    \/ \E a \in Az, w \in Win : ManualReject(a, {w})
    \/ \E r \in Ranges : UpdateRange(r, FALSE)
NextManualOnly == \E r \in Ranges, b \in Boxes : ManualSession(r, b)
SThrHalf == <<1, 2>>      \* grid step 0.02 Hz: 0.01 Hz = half a step
SThrQuarter == <<1, 4>>   \* grid step 0.04 Hz
SThrOne == <<1, 1>>       \* grid step 0.01 Hz
SThrDyadic == <<16, 25>>  \* grid step 1/64 Hz (every frequency exact in binary): 0.01 Hz = 0.64 steps
SThrFive == <<5, 1>>      \* grid step 0.002 Hz: the change of the standard deviation is usually below 0.01 Hz, so the RELATIVE
                          \* change of |mean fn - mean-curve peak| decides the convergence
=============================================================================
