CONSTANTS
  NA = 1
  NW = 3
  NF = 6
  Alphabet <- Alpha6a
  Ranges <- Ranges6
  NSet <- NSetA
  MaxIts <- MaxItsA
  TdMasks <- AllMasks
  Boxes <- NoBoxes
  InitSel <- InitEnv
  SThr <- SThrHalf
  DFree = FALSE
  ZeroExact = FALSE
  Export = TRUE
INIT Init
NEXT Next
VIEW View
CHECK_DEADLOCK FALSE
INVARIANT ExportState
ACTION_CONSTRAINT ExportTrans
