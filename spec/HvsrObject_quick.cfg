CONSTANTS
  NA = 1
  NW = 3
  NF = 6
  Alphabet <- Alpha6a
  Ranges <- Ranges6
  NSet <- NSetA
  MaxIts <- MaxItsA
  TdMasks <- AllMasks
  Boxes <- NoBoxes
  InitSel <- InitAll
  SThr <- SThrHalf
  DFree = FALSE
  ZeroExact = FALSE
  Export = FALSE
INIT Init
NEXT Next
VIEW View
CHECK_DEADLOCK FALSE
INVARIANT TypeOK
INVARIANT PeaksCurrent
INVARIANT AccFnHavePeaks
INVARIANT MetaRangeCurrent
PROPERTY FdwraStep
PROPERTY TdStep
PROPERTY CurvesFixed
