CONSTANTS
  Mus = {1, 2, 5}
  Sds = {0, 1, 2}
  Ws = {1, 2, 3}
  Zs <- ZsDef
  M = 2
  Export = TRUE
INIT Init
NEXT Next
CHECK_DEADLOCK FALSE
INVARIANT WeightScaleInvariant
INVARIANT ZeroStdClosedForm
INVARIANT MeanBetween
INVARIANT VarNonNegative
CONSTRAINT ExportCase
