------------------------------ MODULE McStats ------------------------------
(* C14, second half: Monte-Carlo spatial statistics.
   M generators (sensors) with mean mu_i, standard deviation sd_i and weight
   w_i > 0 (any scale), N realisations each.  The random generator is scripted:
   realisation j of generator i is  v_ij = mu_i + sd_i * z_j  with integer z_j
   chosen by the specification, so every realisation is an integer and
        mean = sum_i wn_i (sum_j v_ij) / N             wn_i = w_i / sum w
        var  = [ sum_i wn_i sum_j (v_ij - mean)^2 / N ] / (1 - sum_i wn_i^2 / N)
   are exact rationals (reliability weights wn_i / N over all M*N samples).
   TLC checks: invariance under rescaling of all weights, the closed form for
   zero generating standard deviations, mean between the smallest and largest
   realisation.  (In log space the same numbers are the exponents.)            *)
EXTENDS Rat, TLC, Json, FiniteSetsExt

CONSTANTS Mus, Sds, Ws, Zs, M, Export
VARIABLES mu, sd, w, z, done, res
vars == <<mu, sd, w, z, done, res>>

N == Len(z)
V(i, j) == mu[i] + sd[i] * z[j]
WSum(ww) == FoldSet(LAMBDA i, acc : acc + ww[i], 0, 1..M)
Wn(ww, i) == Q(ww[i], WSum(ww))
MeanOf(ww) == RDiv(FoldSet(LAMBDA i, acc : RAdd(acc, RMul(Wn(ww, i), R(FoldSet(LAMBDA j, a2 : a2 + V(i, j), 0, 1..N)))), R(0), 1..M), R(N))
VarOf(ww) ==
    LET m == MeanOf(ww)
        num == RDiv(FoldSet(LAMBDA i, acc : RAdd(acc, RMul(Wn(ww, i),
                        FoldSet(LAMBDA j, a2 : RAdd(a2, RSq(RSub(R(V(i, j)), m))), R(0), 1..N))), R(0), 1..M), R(N))
        w2 == RDiv(FoldSet(LAMBDA i, acc : RAdd(acc, RSq(Wn(ww, i))), R(0), 1..M), R(N))
    IN  RDiv(num, RSub(R(1), w2))

Init == /\ mu \in [1..M -> Mus] /\ sd \in [1..M -> Sds] /\ w \in [1..M -> Ws] /\ z \in Zs
        /\ done = FALSE /\ res = <<>>
Evaluate == ~done /\ done' = TRUE /\ res' = <<MeanOf(w), VarOf(w)>> /\ UNCHANGED <<mu, sd, w, z>>
Next == Evaluate

WeightScaleInvariant == done => MeanOf([i \in 1..M |-> 3 * w[i]]) = res[1] /\ VarOf([i \in 1..M |-> 3 * w[i]]) = res[2]
ZeroStdClosedForm == (done /\ \A i \in 1..M : sd[i] = 0) =>
    res[1] = FoldSet(LAMBDA i, acc : RAdd(acc, RMul(Wn(w, i), R(mu[i]))), R(0), 1..M)
MeanBetween == done => LET vs == { V(i, j) : i \in 1..M, j \in 1..N }
                       IN RLe(R(Min(vs)), res[1]) /\ RLe(res[1], R(Max(vs)))
VarNonNegative == done => RSign(res[2]) >= 0
ExportCase == (Export /\ done) => PrintT(ToJson([mu |-> mu, sd |-> sd, w |-> w, z |-> z, mean |-> res[1], var |-> res[2]]))
ZsDef == { <<-1, 0, 1>>, <<0, 0, 0>>, <<2, -1, -1>>, <<1, 1, -2, 0>> }
=============================================================================
