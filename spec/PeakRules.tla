----------------------------- MODULE PeakRules -----------------------------
(* Peak search of an HVSR curve over a search range (property C08), on a
   uniform grid of n points.  Grid point i (1-based; Python index i-1) is the
   i-th frequency of the curve.  A range end is NoEnd (Python None) or an
   integer h on the half-step lattice: the end lies at grid position h/2
   (h = 2i is exactly grid point i, h = 2i+1 is midway between i and i+1,
   h <= 1 lies below the grid, h >= 2n+1 above it).

   P tier (what the property demands, as loosely as its statement):
     * an end snaps to a nearest grid point (either one at an exact tie);
     * the searched sub-curve runs from the snapped lower end to the snapped
       upper end; whether the snapped upper end itself still belongs to the
       sub-curve is left open (reading "Excl" = the Python slice of today's
       code, reading "Incl" = symmetric treatment of both ends);
     * a candidate is any point of a plateau lying strictly inside the
       sub-curve whose two outer neighbours are lower (never the first or
       last point of the sub-curve);
     * the reported peak is any candidate of maximal height, or none (0)
       iff there is no candidate.
   I tier (today's code, line by line): first argmin, slice [lo, hi), scipy
   plateau midpoint, first argmax.                                          *)
EXTENDS Integers, Sequences, FiniteSets

NoEnd == -99

Clip(i, n) == IF i < 1 THEN 1 ELSE IF i > n THEN n ELSE i

SnapSet(h, n) ==
    IF h % 2 = 0 THEN {Clip(h \div 2, n)}
    ELSE LET a == (h - 1) \div 2
         IN  IF a < 1 THEN {1} ELSE IF a + 1 > n THEN {n} ELSE {a, a + 1}

SnapFirst(h, n) ==            \* numpy argmin: first index of the minimum
    IF h % 2 = 0 THEN Clip(h \div 2, n)
    ELSE LET a == (h - 1) \div 2
         IN  IF a < 1 THEN 1 ELSE IF a + 1 > n THEN n ELSE a

(* sub-curve = positions L .. U (inclusive).  A plateau <<a, b>> is a maximal run
   of equal values lying strictly inside the sub-curve (L < a, b < U) whose two
   outer neighbours are lower. *)
RECURSIVE RunEnd(_, _, _)
RunEnd(c, a, U) == IF a < U /\ c[a + 1] = c[a] THEN RunEnd(c, a + 1, U) ELSE a

Plateaus(c, L, U) ==
    { <<a, RunEnd(c, a, U)>> :
        a \in { x \in (L+1)..(U-1) :
                  /\ c[x-1] < c[x]
                  /\ LET b == RunEnd(c, x, U) IN b < U /\ c[b+1] < c[b] } }

CandAny(c, L, U) == UNION { p[1]..p[2] : p \in Plateaus(c, L, U) }
CandMid(c, L, U) == { (p[1] + p[2]) \div 2 : p \in Plateaus(c, L, U) }

Best(c, cands) == IF cands = {} THEN {0}
                  ELSE { p \in cands : \A q \in cands : c[q] <= c[p] }

LowerSet(lo, n) == IF lo = NoEnd THEN {1} ELSE SnapSet(lo, n)
\* last position of the sub-curve, under the two readings of the upper end
UpperSet(hi, n) == IF hi = NoEnd THEN {n}
                   ELSE { s - 1 : s \in SnapSet(hi, n) } \cup SnapSet(hi, n)

P_Allowed(c, lo, hi) ==
    LET n == Len(c)
    IN  UNION { Best(c, CandAny(c, L, U)) : L \in LowerSet(lo, n), U \in UpperSet(hi, n) }

(* Derived curves (mean curves) are computed in floating point: values that are
   exactly equal in rational arithmetic may come out either way round.  The
   property-level relation for such curves therefore admits every answer that
   some arbitrarily small perturbation of the tied values produces:
     * a point may be reported iff it is a non-strict local maximum strictly
       inside the sub-curve and at least as high as every certain peak;
     * "none" may be reported iff there is no certain peak (plateau with
       strictly lower outer neighbours).                                     *)
PossiblePk(c, L, U) == { p \in (L+1)..(U-1) : c[p-1] <= c[p] /\ c[p+1] <= c[p] }
PT_LU(c, L, U) ==
    LET sure == Plateaus(c, L, U)
    IN  (IF sure = {} THEN {0} ELSE {})
        \cup { p \in PossiblePk(c, L, U) : \A q \in sure : c[q[1]] <= c[p] }
PT_Allowed(c, lo, hi) ==
    LET n == Len(c)
    IN  UNION { PT_LU(c, L, U) : L \in LowerSet(lo, n), U \in UpperSet(hi, n) }

I_Lower(lo, n) == IF lo = NoEnd THEN 1 ELSE SnapFirst(lo, n)
I_Upper(hi, n) == IF hi = NoEnd THEN n ELSE SnapFirst(hi, n) - 1

I_Peak(c, lo, hi) ==
    LET n     == Len(c)
        cands == CandMid(c, I_Lower(lo, n), I_Upper(hi, n))
        best  == Best(c, cands)
    IN  IF cands = {} THEN 0 ELSE CHOOSE p \in best : \A q \in best : p <= q

(* Frequency (on the half-step lattice) strictly inside the range in Hz *)
StrictlyInside(p, lo, hi) ==
    /\ (lo # NoEnd => 2 * p > lo)
    /\ (hi # NoEnd => 2 * p < hi)

IsLocalMax(c, p) ==
    \E a \in 1..p, b \in p..Len(c) :
        /\ a > 1 /\ b < Len(c)
        /\ \A k \in a..b : c[k] = c[p]
        /\ c[a-1] < c[p] /\ c[b+1] < c[p]
=============================================================================
