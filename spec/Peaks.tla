------------------------------- MODULE Peaks -------------------------------
(* C08 kernel: every curve of length N over Levels x every search range on the
   half-step lattice (incl. half-open, inverted-empty and out-of-grid ranges).
   Init = inputs with the result pending, Evaluate = the implementation-shaped
   peak search; the invariants state what the property demands of any result
   and that the implementation-shaped search refines it.  Every evaluated state
   is exported (ToJson) and replayed into the real objects.                   *)
EXTENDS PeakRules, TLC, Json

CONSTANTS N, Levels, Export

Ends == {NoEnd} \cup (0..(2 * N + 2))

VARIABLES c, lo, hi, res
vars == <<c, lo, hi, res>>

Pending == -1

Init == /\ c \in [1..N -> Levels]
        /\ lo \in Ends /\ hi \in Ends
        /\ res = Pending

Evaluate == /\ res = Pending
            /\ res' = I_Peak(c, lo, hi)
            /\ UNCHANGED <<c, lo, hi>>

Next == Evaluate
Spec == Init /\ [][Next]_vars

Done == res # Pending

Refines            == Done => res \in P_Allowed(c, lo, hi)
StrictlyInsideHz   == Done => \A p \in P_Allowed(c, lo, hi) \ {0} : StrictlyInside(p, lo, hi)
PeakIsLocalMax     == Done => \A p \in P_Allowed(c, lo, hi) \ {0} : IsLocalMax(c, p)
NoneOnlyWithoutAny == Done => (0 \in P_Allowed(c, lo, hi) =>
                                 \E L \in LowerSet(lo, N), U \in UpperSet(hi, N) : CandAny(c, L, U) = {})
\* no allowed answer is lower than a local maximum that every reading of the range contains
NoHigherCertainPeak ==
    Done => LET core == CandAny(c, IF lo = NoEnd THEN 1 ELSE Clip((lo + 1) \div 2, N),
                                   IF hi = NoEnd THEN N ELSE Clip(hi \div 2, N) - 1)
            IN \A p \in P_Allowed(c, lo, hi) : \A q \in core : p # 0 /\ c[q] <= c[p]
InvertedIsEmpty    == Done /\ lo # NoEnd /\ hi # NoEnd /\ hi <= lo => P_Allowed(c, lo, hi) = {0}

ExportCase == (Export /\ Done) =>
    PrintT(ToJson([c |-> c, lo |-> lo, hi |-> hi, ip |-> res, al |-> P_Allowed(c, lo, hi)]))
=============================================================================
