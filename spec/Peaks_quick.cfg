CONSTANTS
  N = 5
  Levels = {0, 1, 2}
  Export = TRUE
INIT Init
NEXT Next
CHECK_DEADLOCK FALSE
INVARIANT Refines
INVARIANT StrictlyInsideHz
INVARIANT PeakIsLocalMax
INVARIANT NoneOnlyWithoutAny
INVARIANT NoHigherCertainPeak
INVARIANT InvertedIsEmpty
CONSTRAINT ExportCase
