------------------------------ MODULE Pipeline ------------------------------
(* C03: process() returns one curve per processed recording, in input order,
   each equal to the curve of that recording processed alone (fixed FFT length),
   under the three policies for dissimilar time steps; centre frequencies above
   the Nyquist frequency of a processed recording are refused.

   A recording is its position in the list; dts[i] is its time-step class
   (1 = smallest time step).  Alone(i) is an uninterpreted symbol: row i of the
   result must be THE curve of recording i.
   P tier  Kept = all / those with the smallest time step / those with A most
           frequent time step (set-valued at a tie); rows = Kept in input order.
   I tier  today's algorithm: time steps counted in insertion order, first
           strict maximum for the majority, early exit of the selection loops,
           curves computed group by group and reordered with the index map.
   FcClass k means: the largest centre frequency lies between the Nyquist
   frequencies of time-step classes k and k+1 (0: below all, i.e. legal for
   every class; NDt: above all).                                              *)
EXTENDS Integers, Sequences, FiniteSets, TLC, Json

CONSTANTS MaxRecs, NDt, Export
Policies == {"frequency_domain_resampling", "keeping_smallest_time_step", "keeping_majority_time_step"}

VARIABLES dts, policy, fc, done, res
vars == <<dts, policy, fc, done, res>>

N == Len(dts)
Idx == 1..N
Count(d) == Cardinality({ i \in Idx : dts[i] = d })
DtSet == { dts[i] : i \in Idx }
MinDt == CHOOSE d \in DtSet : \A e \in DtSet : d <= e
Majorities == { d \in DtSet : \A e \in DtSet : Count(e) <= Count(d) }

\* ---------- property tier ----------
P_KeptSets == IF policy = "frequency_domain_resampling" THEN { Idx }
              ELSE IF policy = "keeping_smallest_time_step" THEN { { i \in Idx : dts[i] = MinDt } }
              ELSE { { i \in Idx : dts[i] = d } : d \in Majorities }
RECURSIVE SeqOf(_, _)
SeqOf(S, k) == IF k > N THEN <<>> ELSE (IF k \in S THEN <<k>> ELSE <<>>) \o SeqOf(S, k + 1)
\* a centre frequency of class fc is above the Nyquist of every record whose dt class is > NDt - fc
Refused(S) == \E i \in S : dts[i] > NDt - fc
P_Results == { IF Refused(S) THEN [err |-> TRUE, rows |-> <<>>] ELSE [err |-> FALSE, rows |-> SeqOf(S, 1)] : S \in P_KeptSets }

\* ---------- implementation tier ----------
RECURSIVE FirstSeen(_, _)
FirstSeen(k, acc) == IF k > N THEN acc
                     ELSE FirstSeen(k + 1, IF \E j \in 1..Len(acc) : acc[j] = dts[k] THEN acc ELSE Append(acc, dts[k]))
DtOrder == FirstSeen(1, <<>>)           \* keys of dt_with_count in insertion order
RECURSIVE FirstMax(_, _, _)
FirstMax(j, best, bestCount) ==
    IF j > Len(DtOrder) THEN best
    ELSE IF Count(DtOrder[j]) > bestCount THEN FirstMax(j + 1, DtOrder[j], Count(DtOrder[j]))
    ELSE FirstMax(j + 1, best, bestCount)
I_KeptDt == IF policy = "keeping_smallest_time_step" THEN {MinDt}
            ELSE IF policy = "keeping_majority_time_step" THEN {FirstMax(1, 0, 0)} ELSE DtSet
I_Kept == SeqOf({ i \in Idx : dts[i] \in I_KeptDt }, 1)       \* abbreviated record list, original order
\* group loop: for each dt in insertion order (restricted to the kept ones) compute its records in order;
\* order_map[org position in I_Kept] = running index; result = computed[order_map]
I_GroupOrder == LET ks == I_Kept
                    RECURSIVE Groups(_)
                    Groups(j) == IF j > Len(DtOrder) THEN <<>>
                                 ELSE SelectSeq(ks, LAMBDA i : dts[i] = DtOrder[j]) \o Groups(j + 1)
                IN Groups(1)                                      \* computed rows, group by group
I_Rows == LET ks == I_Kept
              comp == I_GroupOrder
              \* cur index assigned to the record at position q of ks = its position in comp
              PosIn(x) == CHOOSE p \in 1..Len(comp) : comp[p] = x
          IN  [q \in 1..Len(ks) |-> comp[PosIn(ks[q])]]
I_MaxDt == CHOOSE d \in { dts[i] : i \in { I_Kept[q] : q \in 1..Len(I_Kept) } } :
              \A i \in { I_Kept[q] : q \in 1..Len(I_Kept) } : dts[i] <= d
I_Result == IF I_MaxDt > NDt - fc THEN [err |-> TRUE, rows |-> <<>>] ELSE [err |-> FALSE, rows |-> I_Rows]

RECURSIVE AllSeqs(_)
AllSeqs(k) == IF k = 0 THEN {<<>>} ELSE { Append(s, d) : s \in AllSeqs(k - 1), d \in 1..NDt }
Init == /\ dts \in UNION { AllSeqs(k) : k \in 1..MaxRecs }
        /\ policy \in Policies /\ fc \in 0..NDt
        /\ done = FALSE /\ res = [err |-> FALSE, rows |-> <<>>]
Evaluate == ~done /\ done' = TRUE /\ res' = I_Result /\ UNCHANGED <<dts, policy, fc>>
Next == Evaluate

Refines == done => res \in P_Results
OneRowPerKept  == done /\ ~res.err => \E S \in P_KeptSets : Len(res.rows) = Cardinality(S)
OrderPreserved == done /\ ~res.err => \A p, q \in 1..Len(res.rows) : p < q => res.rows[p] < res.rows[q]
NyquistRefused == done => (res.err <=> \E S \in P_KeptSets : Refused(S) /\ S = { I_Kept[q] : q \in 1..Len(I_Kept) })
ExportCase == (Export /\ done) => PrintT(ToJson([dts |-> dts, policy |-> policy, fc |-> fc, ires |-> res, pres |-> P_Results]))
=============================================================================
