CONSTANTS
  MaxRecs = 4
  NDt = 3
  Export = TRUE
INIT Init
NEXT Next
CHECK_DEADLOCK FALSE
INVARIANT Refines
INVARIANT OneRowPerKept
INVARIANT OrderPreserved
INVARIANT NyquistRefused
CONSTRAINT ExportCase
