CONSTANTS
  Orients = {"none", "0", "30", "-45", "400"}
  Filters = {"none", "low", "high", "band"}
  Splits = {"none", "1.0", "0.73"}
  Detrends = {"none", "constant", "linear"}
INIT PInit
NEXT PEval
CHECK_DEADLOCK FALSE
INVARIANT OrderOK
INVARIANT PsdOrderOK
CONSTRAINT PExport
CONSTRAINT PsdExport
