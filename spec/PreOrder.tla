------------------------------ MODULE PreOrder ------------------------------
(* C10, second half: which primitive steps HVSR preprocessing performs, and in
   which order, for every combination of settings.  The result is a sequence of
   step descriptors that the harness executes with the library's own primitives. *)
EXTENDS Integers, Sequences, TLC, Json

(* orient -> filter the whole record -> split -> detrend each window *)
Steps(orient, filt, split, detrend) ==
    (IF orient THEN <<"orient">> ELSE <<>>) \o (IF filt THEN <<"filter">> ELSE <<>>) \o
    (IF split THEN <<"split">> ELSE <<>>) \o (IF detrend THEN <<"detrend_each">> ELSE <<>>)

CONSTANTS Orients, Filters, Splits, Detrends

VARIABLES o, f, s, d, steps
pvars == <<o, f, s, d, steps>>

PInit == /\ o \in Orients /\ f \in Filters /\ s \in Splits /\ d \in Detrends /\ steps = <<"pending">>
PEval == /\ steps = <<"pending">>
         /\ steps' = Steps(o # "none", f # "none", s # "none", d # "none")
         /\ UNCHANGED <<o, f, s, d>>
PDone == steps # <<"pending">>

\* orientation first, detrending last, filtering never after splitting
Pos(x) == IF \E i \in 1..Len(steps) : steps[i] = x THEN CHOOSE i \in 1..Len(steps) : steps[i] = x ELSE 0
OrderOK == PDone =>
    /\ (Pos("orient") # 0 => Pos("orient") = 1)
    /\ (Pos("detrend_each") # 0 => Pos("detrend_each") = Len(steps))
    /\ (Pos("filter") # 0 /\ Pos("split") # 0 => Pos("filter") < Pos("split"))
PExport == PDone => PrintT(ToJson([o |-> o, f |-> f, s |-> s, d |-> d, steps |-> steps]))
=============================================================================
