------------------------------ MODULE PreOrder ------------------------------
(* C10, second half: which primitive steps HVSR preprocessing performs, and in
   which order, for every combination of settings.  The result is a sequence of
   step descriptors that the harness executes with the library's own primitives. *)
EXTENDS Integers, Sequences, FiniteSets, TLC, Json

(* orient -> filter the whole record -> split -> detrend each window *)
Steps(orient, filt, split, detrend) ==
    (IF orient THEN <<"orient">> ELSE <<>>) \o (IF filt THEN <<"filter">> ELSE <<>>) \o
    (IF split THEN <<"split">> ELSE <<>>) \o (IF detrend THEN <<"detrend_each">> ELSE <<>>)

(* PSD preprocessing (C17): orient -> filter the whole record -> [remove the mean and taper ONCE when a
   response is removed or the record is differentiated] -> remove the instrument response (then repeat
   the filter) -> differentiate -> split -> detrend each window *)
PsdSteps(orient, filt, resp, diff, split, detrend) ==
    (IF orient THEN <<"orient">> ELSE <<>>) \o (IF filt THEN <<"filter">> ELSE <<>>) \o
    (IF resp \/ diff THEN <<"demean", "taper">> ELSE <<>>) \o
    (IF resp THEN <<"remove_response">> \o (IF filt THEN <<"filter">> ELSE <<>>) ELSE <<>>) \o
    (IF diff THEN <<"differentiate">> ELSE <<>>) \o
    (IF split THEN <<"split">> ELSE <<>>) \o (IF detrend THEN <<"detrend_each">> ELSE <<>>)

CONSTANTS Orients, Filters, Splits, Detrends

VARIABLES o, f, s, d, steps
pvars == <<o, f, s, d, steps>>

PInit == /\ o \in Orients /\ f \in Filters /\ s \in Splits /\ d \in Detrends /\ steps = <<"pending">>
PEval == /\ steps = <<"pending">>
         /\ steps' = Steps(o # "none", f # "none", s # "none", d # "none")
         /\ UNCHANGED <<o, f, s, d>>
PDone == steps # <<"pending">>

\* orientation first, detrending last, filtering never after splitting
Pos(x) == IF \E i \in 1..Len(steps) : steps[i] = x THEN CHOOSE i \in 1..Len(steps) : steps[i] = x ELSE 0
OrderOK == PDone =>
    /\ (Pos("orient") # 0 => Pos("orient") = 1)
    /\ (Pos("detrend_each") # 0 => Pos("detrend_each") = Len(steps))
    /\ (Pos("filter") # 0 /\ Pos("split") # 0 => Pos("filter") < Pos("split"))
\* PSD chain: every combination of response / differentiation on top of the same settings
Count(q, x) == Cardinality({ i \in 1..Len(q) : q[i] = x })
PsdOrderOK == PDone => \A resp \in BOOLEAN, diff \in BOOLEAN :
    LET q == PsdSteps(o # "none", f # "none", resp, diff, s # "none", d # "none")
    IN  /\ Count(q, "taper") = (IF resp \/ diff THEN 1 ELSE 0)          \* tapered exactly once
        /\ Count(q, "demean") = Count(q, "taper")
        /\ Count(q, "differentiate") = (IF diff THEN 1 ELSE 0)
        /\ (resp /\ diff => \E i, j \in 1..Len(q) : q[i] = "remove_response" /\ q[j] = "differentiate" /\ i < j)
PsdExport == PDone => PrintT(ToJson([psd |-> TRUE, o |-> o, f |-> f, s |-> s, d |-> d,
                 chains |-> [resp \in {0, 1} |-> [diff \in {0, 1} |-> PsdSteps(o # "none", f # "none", resp = 1, diff = 1, s # "none", d # "none")]]]))
PExport == PDone => PrintT(ToJson([o |-> o, f |-> f, s |-> s, d |-> d, steps |-> steps]))
=============================================================================
