--------------------------------- MODULE Psd ---------------------------------
(* C17: normalisation of the one-sided power spectral density.
   n = 4 samples per window, integer samples x0..x3, sampling rate Fs, rectangular
   taper (U = 1), no zero padding.  The DFT is exact in Gaussian integers:
        X0 = x0+x1+x2+x3      |X1|^2 = (x0-x2)^2 + (x1-x3)^2      X2 = x0-x1+x2-x3
   One-sided density of the interior bin:  psd_1 = 2 |X1|^2 / (L Fs U), L = 4,
   averaged over the windows (Welch).  Parseval for the interior bins:
        sum_{0<k<n/2} psd_k * (Fs/n)  =  ( sum y^2 - X0^2/n - X_{n/2}^2/n ) / (L U)
   (for general even n the same identity is evaluated by the harness in floating
   point; for odd n the last term is absent).                                *)
EXTENDS Rat, TLC, Json

CONSTANTS Vals, FsSet, Export
VARIABLES x, w2, fs, done, res
vars == <<x, w2, fs, done, res>>

X1sq(v) == (v[1] - v[3]) * (v[1] - v[3]) + (v[2] - v[4]) * (v[2] - v[4])
X0(v) == v[1] + v[2] + v[3] + v[4]
X2(v) == v[1] - v[2] + v[3] - v[4]
SumSq(v) == v[1]*v[1] + v[2]*v[2] + v[3]*v[3] + v[4]*v[4]
Psd1(v) == Q(2 * X1sq(v), 4 * fs)
\* second window: none, or the first one transformed (different content, same length)
Second == IF w2 = 0 THEN <<>> ELSE IF w2 = 1 THEN <<x[4], x[3], x[2], x[1]>> ELSE <<2 * x[1], -x[2], x[3] + 1, x[4]>>
Windows == IF w2 = 0 THEN <<x>> ELSE <<x, Second>>
Welch == LET W == Len(Windows) IN RDiv(RSumSeq([i \in 1..W |-> Psd1(Windows[i])]), R(W))

Init == /\ x \in [1..4 -> Vals] /\ w2 \in 0..2 /\ fs \in FsSet /\ done = FALSE /\ res = <<0, 1>>
Evaluate == ~done /\ done' = TRUE /\ res' = Welch /\ UNCHANGED <<x, w2, fs>>
Next == Evaluate

\* Parseval on the interior bin of every single window
ParsevalInterior == \A i \in 1..Len(Windows) :
    LET v == Windows[i]
    IN  RMul(Psd1(v), Q(fs, 4)) = RDiv(RSub(RSub(R(SumSq(v)), Q(X0(v) * X0(v), 4)), Q(X2(v) * X2(v), 4)), R(4))
\* the density scales with the square of the amplitude
Quadratic == \A c \in {2, 3} : Q(2 * X1sq([i \in 1..4 |-> c * x[i]]), 4 * fs) = RMul(R(c * c), Psd1(x))
NonNegative == RSign(Psd1(x)) >= 0
WelchIsAverage == done => res = RDiv(RSumSeq([i \in 1..Len(Windows) |-> Psd1(Windows[i])]), R(Len(Windows)))
ExportCase == (Export /\ done) => PrintT(ToJson([x |-> x, w2 |-> w2, fs |-> fs, win |-> Windows, psd1 |-> res]))
ValsQ == {-2, -1, 0, 1, 3}
ValsT == {-3, -2, -1, 0, 1, 2, 5}
=============================================================================
