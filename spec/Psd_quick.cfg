CONSTANTS
  Vals <- ValsQ
  FsSet = {1, 4, 50}
  Export = TRUE
INIT Init
NEXT Next
CHECK_DEADLOCK FALSE
INVARIANT ParsevalInterior
INVARIANT Quadratic
INVARIANT NonNegative
INVARIANT WelchIsAverage
CONSTRAINT ExportCase
