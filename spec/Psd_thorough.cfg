CONSTANTS
  Vals <- ValsT
  FsSet = {1, 2, 4, 50, 128}
  Export = TRUE
INIT Init
NEXT Next
CHECK_DEADLOCK FALSE
INVARIANT ParsevalInterior
INVARIANT Quadratic
INVARIANT NonNegative
INVARIANT WelchIsAverage
CONSTRAINT ExportCase
