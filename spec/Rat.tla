------------------------------- MODULE Rat -------------------------------
(* Exact rational arithmetic for TLC (32-bit integers: TLC raises an error on
   overflow, so a result is either exact or the run fails loudly).
   A rational is a normalised pair <<num, den>> with den > 0, gcd = 1.      *)
EXTENDS Integers, Sequences, FiniteSets

Abs(a) == IF a < 0 THEN -a ELSE a

RECURSIVE GcdR(_, _)
GcdR(a, b) == IF b = 0 THEN a ELSE GcdR(b, a % b)

Norm(n, d) ==
    LET g == GcdR(Abs(n), Abs(d))
        s == IF d < 0 THEN -1 ELSE 1
    IN  <<(s * n) \div g, (s * d) \div g>>

R(n)        == <<n, 1>>
Q(n, d)     == Norm(n, d)
Num(a)      == a[1]
Den(a)      == a[2]
RAdd(a, b)  == LET g == GcdR(a[2], b[2])
               IN Norm(a[1] * (b[2] \div g) + b[1] * (a[2] \div g), (a[2] \div g) * b[2])
RNeg(a)     == <<-a[1], a[2]>>
RSub(a, b)  == RAdd(a, RNeg(b))
RMul(a, b)  == LET x == Norm(a[1], b[2])  y == Norm(b[1], a[2])
               IN <<x[1] * y[1], x[2] * y[2]>>
RInv(a)     == IF a[1] < 0 THEN <<-a[2], -a[1]>> ELSE <<a[2], a[1]>>
RDiv(a, b)  == RMul(a, RInv(b))
RSq(a)      == <<a[1] * a[1], a[2] * a[2]>>
RAbs(a)     == <<Abs(a[1]), a[2]>>
RSign(a)    == IF a[1] > 0 THEN 1 ELSE IF a[1] < 0 THEN -1 ELSE 0
RLt(a, b)   == RSign(RSub(a, b)) < 0
RLe(a, b)   == RSign(RSub(a, b)) <= 0
REq(a, b)   == a = b
RIsZero(a)  == a[1] = 0
RMax(a, b)  == IF RLt(a, b) THEN b ELSE a
RMin(a, b)  == IF RLt(a, b) THEN a ELSE b

RECURSIVE RSumSeq(_)
RSumSeq(s) == IF s = <<>> THEN R(0) ELSE RAdd(Head(s), RSumSeq(Tail(s)))

RECURSIVE ISumSeq(_)
ISumSeq(s) == IF s = <<>> THEN 0 ELSE Head(s) + ISumSeq(Tail(s))

(* |sqrt(a) - sqrt(b)| < c   for rationals a, b >= 0, c > 0, decided exactly:
   <=>  a + b - c^2 < 2 sqrt(ab)
   <=>  a + b - c^2 <= 0   \/   (a + b - c^2)^2 < 4ab                        *)
SqrtDiffLt(a, b, c) ==
    LET t == RSub(RAdd(a, b), RSq(c))
    IN  RSign(t) <= 0 \/ RLt(RSq(t), RMul(R(4), RMul(a, b)))

(* same comparison with equality, to recognise knife edges *)
SqrtDiffEq(a, b, c) ==
    LET t == RSub(RAdd(a, b), RSq(c))
    IN  RSign(t) > 0 /\ REq(RSq(t), RMul(R(4), RMul(a, b)))

(* sequence of the elements of a set of integers in increasing order *)
RECURSIVE SortedSeq(_)
SortedSeq(S) == IF S = {} THEN <<>>
                ELSE LET m == CHOOSE x \in S : \A y \in S : x <= y
                     IN <<m>> \o SortedSeq(S \ {m})
=============================================================================
