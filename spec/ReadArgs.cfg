CONSTANTS
  NRec = 3
  Export = TRUE
INIT Init
NEXT Next
CHECK_DEADLOCK FALSE
INVARIANT EachGetsItsOwn
CONSTRAINT ExportCase
