------------------------------ MODULE ReadArgs ------------------------------
(* C07: read() hands each recording its own degrees_from_north and reader
   options, in order, whether these are given once or per recording.
   Forms: "none" (omitted), "one" (a single value for all), "each" (one per
   recording).  P tier: recording i receives value[i] for "each", the single
   value for "one", the default for "none" - independently for the two
   arguments.  I tier models the broadcast as implemented: each argument is
   repeated unless ITS OWN form is "each".                                    *)
EXTENDS Integers, Sequences, TLC, Json
CONSTANTS NRec, Export
Forms == {"none", "one", "each"}
VARIABLES kf, df, done, res
vars == <<kf, df, done, res>>
Given(form, i) == IF form = "none" THEN "default" ELSE IF form = "one" THEN "single" ELSE <<"item", i>>
P_Result == [i \in 1..NRec |-> [deg |-> Given(df, i), kw |-> Given(kf, i)]]
I_Result == [i \in 1..NRec |-> [deg |-> IF df = "each" THEN <<"item", i>> ELSE Given(df, i),
                                kw  |-> IF kf = "each" THEN <<"item", i>> ELSE Given(kf, i)]]
Init == kf \in Forms /\ df \in Forms /\ done = FALSE /\ res = <<>>
Evaluate == ~done /\ done' = TRUE /\ res' = I_Result /\ UNCHANGED <<kf, df>>
Next == Evaluate
EachGetsItsOwn == done => res = P_Result
ExportCase == (Export /\ done) => PrintT(ToJson([kf |-> kf, df |-> df, n |-> NRec]))
=============================================================================
