CONSTANTS
  Formats = {"mseed1", "mseed3", "sac_le", "sac_be", "saf", "minishark", "peer"}
  Export = TRUE
INIT Init
NEXT Next
CHECK_DEADLOCK FALSE
INVARIANT Refines
INVARIANT OrderIrrelevant
INVARIANT DefectsRefused
CONSTRAINT ExportCase
