------------------------------ MODULE Readers ------------------------------
(* C07: readers put the stored samples on the right components.
   A case is a file set of one format: the three stored vectors are 1 = north,
   2 = east, 3 = vertical motion; `perm` is the order in which their traces /
   files / columns appear; `nv` selects a channel-naming variant; `defect`
   injects a fault.
   P tier: without a defect the result maps ns -> 1, ew -> 2, vt -> 3 whatever
   the order and naming; with a defect (missing or duplicated component,
   unrecognised channel, sample count different from the header) the result is
   an error, never a recording.
   I tier: the selection rules of today's readers (first trace whose channel
   ends in E / N / Z; SAF column indices with the CH1 rule; PEER vertical by
   UP / VER / ..Z then horizontals by smallest / largest relative azimuth).
   SAF files whose vertical is not the first column: the format text says "CH0
   must be vertical"; the property tier allows {correct recording, error}.
   PEER horizontals given as azimuths (a, b): the property tier requires the
   right-handed assignment ns = a, ew = a + 90 (degrees_from_north = a); pairs
   for which today's smallest-|relative azimuth| rule picks the other one are
   flagged `itierOnly` (recorded in DESIGN.md as an observation, not judged).   *)
EXTENDS Integers, Sequences, FiniteSets, TLC, Json

CONSTANTS Formats, Export

Perms == { <<1,2,3>>, <<1,3,2>>, <<2,1,3>>, <<2,3,1>>, <<3,1,2>>, <<3,2,1>> }
Defects == {"none", "missing", "duplicate", "unknown", "count+1", "count-1"}

\* channel labels of vectors 1 (N), 2 (E), 3 (Z) per format and naming variant
\* the last two variants mix band / instrument prefixes: only the LAST letter of a channel code names the component
TraceNames == << <<"BHN", "BHE", "BHZ">>, <<"HHN", "HHE", "HHZ">>, <<"EHN", "EHE", "EHZ">>, <<"N", "E", "Z">>,
                 <<"HHN", "HHE", "BHZ">>, <<"BHN", "HNE", "HNZ">> >>
PeerNames  == << <<"360", "090", "UP">>, <<"000", "090", "VER">>, <<"HNN", "HNE", "HNZ">>, <<"BLN", "BLE", "BLZ">>,
                 <<"45", "135", "UP">>, <<"0", "90", "UP">>, <<"090", "180", "UP">>, <<"180", "270", "UP">>, <<"315", "045", "VER">> >>
NVariants(f) == IF f = "peer" THEN Len(PeerNames) ELSE IF f \in {"mseed1", "mseed3", "sac_le", "sac_be"} THEN Len(TraceNames) ELSE 1

VARIABLES fmt, perm, nv, defect, done, res
vars == <<fmt, perm, nv, defect, done, res>>

Applicable(f, d) ==
    CASE f \in {"mseed1", "mseed3", "sac_le", "sac_be"} -> d \in {"none", "missing", "duplicate", "unknown"}
      [] f = "saf"       -> d \in {"none", "count+1", "count-1"}
      [] f = "minishark" -> d \in {"none", "count+1", "count-1"}
      [] f = "peer"      -> d \in {"none", "count+1", "count-1", "unknown", "missing"}
      [] OTHER -> FALSE

Correct == [ns |-> 1, ew |-> 2, vt |-> 3]
Err == [ns |-> 0, ew |-> 0, vt |-> 0]

\* ---- implementation tier -------------------------------------------------
Suffix(lbl) == IF lbl \in {"BHN", "HHN", "EHN", "N", "HNN", "BLN"} THEN "N"
               ELSE IF lbl \in {"BHE", "HHE", "EHE", "E", "HNE", "BLE"} THEN "E"
               ELSE IF lbl \in {"BHZ", "HHZ", "EHZ", "Z", "HNZ", "BLZ"} THEN "Z" ELSE "?"
\* labels of the traces in file order, after the defect
Labels == LET base == [k \in 1..3 |-> TraceNames[nv][perm[k]]]
          IN  CASE defect = "missing"   -> SubSeq(base, 1, 2)
                [] defect = "duplicate" -> <<base[1], base[1], base[3]>>
                [] defect = "unknown"   -> <<base[1], "BH1", base[3]>>
                [] OTHER -> base
Vecs == CASE defect = "duplicate" -> <<perm[1], perm[1], perm[3]>> [] OTHER -> perm
RECURSIVE Arrange(_, _)
Arrange(k, acc) ==      \* _arrange_traces: first E, first N, first Z; anything else raises
    IF k > Len(Labels) THEN acc
    ELSE LET s == Suffix(Labels[k])
         IN  IF s = "E" /\ acc.ew = 0 THEN Arrange(k + 1, [acc EXCEPT !.ew = Vecs[k]])
             ELSE IF s = "N" /\ acc.ns = 0 THEN Arrange(k + 1, [acc EXCEPT !.ns = Vecs[k]])
             ELSE IF s = "Z" /\ acc.vt = 0 THEN Arrange(k + 1, [acc EXCEPT !.vt = Vecs[k]])
             ELSE [ns |-> -1, ew |-> -1, vt |-> -1]
I_Trace == IF Len(Labels) # 3 THEN Err
           ELSE LET r == Arrange(1, Err) IN IF r.ns <= 0 \/ r.ew <= 0 \/ r.vt <= 0 THEN Err ELSE r

\* SAF: column k (0-based k-1) holds vector perm[k]; CHk_ID says which; degrees rule needs N or E in column index 1
SafCol(v) == CHOOSE k \in 1..3 : perm[k] = v
I_Saf == IF defect # "none" THEN Err
         ELSE IF SafCol(1) = 2 \/ SafCol(2) = 2 THEN Correct ELSE Err       \* CH1 (second column) must be a horizontal
SafStandard == SafCol(3) = 1

\* PEER: labels per file in list order
PLabels == LET base == [k \in 1..3 |-> PeerNames[nv][perm[k]]]
           IN CASE defect = "unknown" -> [base EXCEPT ![SafCol(3)] = "XYZ"] [] OTHER -> base
IsNum(l) == l \in {"360", "090", "000", "45", "135", "0", "90", "180", "270", "315", "045"}
NumOf(l) == CASE l = "360" -> 360 [] l = "090" -> 90 [] l = "000" -> 0 [] l = "45" -> 45 [] l = "135" -> 135 [] l = "0" -> 0
              [] l = "90" -> 90 [] l = "180" -> 180 [] l = "270" -> 270 [] l = "315" -> 315 [] l = "045" -> 45 [] OTHER -> -1
RelAbs(a) == LET r == IF a > 180 THEN a - 360 ELSE a IN IF r < 0 THEN -r ELSE r
PeerRightHanded == \* does the smallest-|relative azimuth| rule pick the component a with partner a + 90 ?
    LET a == NumOf(PeerNames[nv][1])
        b == NumOf(PeerNames[nv][2])
    IN  ~IsNum(PeerNames[nv][1]) \/ (RelAbs(a) < RelAbs(b) /\ (a + 90) % 360 = b % 360)
I_Peer == IF defect \in {"count+1", "count-1", "unknown", "missing"} THEN Err ELSE Correct
PeerDegrees == IF IsNum(PeerNames[nv][1]) THEN NumOf(PeerNames[nv][1]) % 360 ELSE 0

I_Read == CASE fmt \in {"mseed1", "mseed3", "sac_le", "sac_be"} -> I_Trace
            [] fmt = "saf" -> I_Saf
            [] fmt = "minishark" -> IF defect = "none" THEN Correct ELSE Err
            [] OTHER -> I_Peer

P_Allowed == IF defect # "none" THEN {Err}
             ELSE IF fmt = "saf" /\ ~SafStandard THEN {Correct, Err}
             ELSE {Correct}

Init == /\ fmt \in Formats /\ perm \in Perms /\ defect \in Defects
        /\ nv \in 1..9 /\ nv <= NVariants(fmt) /\ Applicable(fmt, defect)
        /\ (fmt = "minishark" => perm = <<1, 2, 3>>)
        /\ done = FALSE /\ res = Err
Evaluate == ~done /\ done' = TRUE /\ res' = I_Read /\ UNCHANGED <<fmt, perm, nv, defect>>
Next == Evaluate

Refines == done => res \in P_Allowed
OrderIrrelevant == done /\ defect = "none" /\ fmt # "saf" => res = Correct
DefectsRefused == done /\ defect # "none" => res = Err
ExportCase == (Export /\ done) =>
    PrintT(ToJson([fmt |-> fmt, perm |-> perm, nv |-> nv, defect |-> defect, ires |-> res, allowed |-> P_Allowed,
                   itierOnly |-> (fmt = "peer" /\ ~PeerRightHanded),
                   names |-> IF fmt = "peer" THEN PeerNames[nv] ELSE IF fmt \in {"saf", "minishark"} THEN <<"N", "E", "V">> ELSE TraceNames[nv],
                   degrees |-> IF fmt = "peer" THEN PeerDegrees ELSE 0]))
=============================================================================
