------------------------------ MODULE Rotation ------------------------------
(* C04: sensor orientation and azimuth handling, in exact arithmetic.
   Angles are elements of the group of PYTHAGOREAN rotations: <<c, s>> with
   rational c = cos, s = sin (0, 90, 180, 270 degrees, atan(3/4), atan(4/3),
   atan(5/12), their negatives, sums and differences), plus a whole number of
   turns that must not matter.  Convention: degrees clockwise from north; a
   sensor "at" delta has its north axis pointing to azimuth delta.
   OrientTo(theta) with d = theta - current:
        ns' = ew * sin d + ns * cos d        ew' = ew * cos d - ns * sin d
   A behaviour is a deployed orientation, integer samples and up to MaxOps
   re-orientations; TLC checks energy preservation, composability (only the last
   target matters), invertibility, untouched vertical, recovery of motion
   polarised along a true azimuth, the clockwise convention, and - on complex
   (Gaussian-integer) spectral bins - the invariance of |NS|^2 + |EW|^2 and the
   180-degree periodicity of the single-azimuth spectrum.  Every behaviour is
   exported with its exact final samples and replayed on SeismicRecording3C.  *)
EXTENDS Rat, TLC, Json, FiniteSetsExt

CONSTANTS Angles,     \* sequence of [c |-> Rat, s |-> Rat, turns |-> Int, name |-> string]
          SampleSets, \* sequence of [ns |-> Seq(Int), ew |-> Seq(Int), vt |-> Seq(Int)]
          MaxOps, Export,
          SplitKeepsOrientation   \* TRUE: the windows of a recording report the recording's orientation (the design);
                                  \* FALSE (negative configuration): they report north - Composable must fail

NAng == Len(Angles)
VARIABLES dep, sset, ops, cur, ns, ew, vt, split
vars == <<dep, sset, ops, cur, ns, ew, vt, split>>

C(a) == Angles[a].c
S(a) == Angles[a].s
\* rotation by the difference  to - from  (exact): cos(t - f) = ct cf + st sf, sin(t - f) = st cf - ct sf
DiffC(to, from) == RAdd(RMul(C(to), C(from)), RMul(S(to), S(from)))
DiffS(to, from) == RSub(RMul(S(to), C(from)), RMul(C(to), S(from)))
T == Len(SampleSets[1].ns)

RotNs(n_, e_, dc, ds) == [t \in 1..T |-> RAdd(RMul(e_[t], ds), RMul(n_[t], dc))]
RotEw(n_, e_, dc, ds) == [t \in 1..T |-> RSub(RMul(e_[t], dc), RMul(n_[t], ds))]
ToRat(q) == [t \in 1..Len(q) |-> R(q[t])]

Init == /\ dep \in 1..NAng /\ sset \in 1..Len(SampleSets)
        /\ ops = <<>> /\ cur = dep
        /\ ns = ToRat(SampleSets[sset].ns) /\ ew = ToRat(SampleSets[sset].ew) /\ vt = ToRat(SampleSets[sset].vt)
        /\ split = FALSE

OrientTo(a) == /\ Len(ops) < MaxOps
               /\ ns' = RotNs(ns, ew, DiffC(a, cur), DiffS(a, cur))
               /\ ew' = RotEw(ns, ew, DiffC(a, cur), DiffS(a, cur))
               /\ cur' = a /\ ops' = Append(ops, a)
               /\ UNCHANGED <<dep, sset, vt, split>>
\* split(): the windows are new objects carrying the samples as they are and the orientation the recording reports
\* (`cur` is the REPORTED orientation, the samples are the truth; recorded in `ops` as 0).  Orienting a window later
\* rotates by (target - reported), so a window that forgot its orientation ends up on the wrong azimuth.
North == CHOOSE a \in 1..NAng : C(a) = R(1) /\ S(a) = R(0) /\ Angles[a].turns = 0
Split == /\ ~split /\ Len(ops) < MaxOps
         /\ split' = TRUE /\ ops' = Append(ops, 0)
         /\ cur' = IF SplitKeepsOrientation THEN cur ELSE North
         /\ UNCHANGED <<dep, sset, ns, ew, vt>>
Next == (\E a \in 1..NAng : OrientTo(a)) \/ Split

Ns0 == ToRat(SampleSets[sset].ns)
Ew0 == ToRat(SampleSets[sset].ew)
EnergyPreserved == \A t \in 1..T : RAdd(RSq(ns[t]), RSq(ew[t])) = RAdd(RSq(Ns0[t]), RSq(Ew0[t]))
\* only the current target matters: the samples equal those of a single re-orientation from the deployed angle
Composable == ns = RotNs(Ns0, Ew0, DiffC(cur, dep), DiffS(cur, dep)) /\ ew = RotEw(Ns0, Ew0, DiffC(cur, dep), DiffS(cur, dep))
\* coming back to the deployed angle (same direction, any number of turns) restores the samples
Invertible == (C(cur) = C(dep) /\ S(cur) = S(dep)) => (ns = Ns0 /\ ew = Ew0)
VerticalUntouched == vt = ToRat(SampleSets[sset].vt)
\* motion m_t polarised along true azimuth phi, recorded by a sensor deployed at dep, appears as
\* (m cos phi, m sin phi) after orienting to north: checked for the motion that the samples represent
\* when read as recorded along azimuth phi = every angle of the alphabet
PolarisedMotionRecovered ==
    \A phi \in 1..NAng : \A m \in {1, 3} :
        LET rn == RMul(R(m), DiffC(phi, dep))        \* recorded ns = m cos(phi - dep)
            re == RMul(R(m), DiffS(phi, dep))        \* recorded ew = m sin(phi - dep)
            north == [c |-> R(1), s |-> R(0)]
            dc == RAdd(RMul(R(1), C(dep)), RMul(R(0), S(dep)))      \* cos(0 - dep)
            ds == RSub(RMul(R(0), C(dep)), RMul(R(1), S(dep)))      \* sin(0 - dep)
        IN  /\ RAdd(RMul(re, ds), RMul(rn, dc)) = RMul(R(m), C(phi))
            /\ RSub(RMul(re, dc), RMul(rn, ds)) = RMul(R(m), S(phi))
\* a pure-north motion seen by a sensor deployed at +theta (0 < theta < 180) has a negative ew component
ClockwiseConvention ==
    \A a \in 1..NAng : (RSign(S(a)) > 0) => RSign(RMul(R(1), RNeg(S(a)))) < 0

\* spectra: complex bins as pairs of integers <<re, im>>
Bins == { <<1, 2>>, <<-3, 1>>, <<0, 2>>, <<2, -1>> }
Sq2(zr, zi) == RAdd(RSq(zr), RSq(zi))
ProjSq(n_, e_, c_, s_) == Sq2(RAdd(RMul(c_, R(n_[1])), RMul(s_, R(e_[1]))), RAdd(RMul(c_, R(n_[2])), RMul(s_, R(e_[2]))))
RotationInvariantEnergy ==
    \A n_ \in Bins, e_ \in Bins : \A a \in 1..NAng :
        RAdd(ProjSq(n_, e_, C(a), S(a)), ProjSq(e_, n_, C(a), RNeg(S(a)))) = R(n_[1]*n_[1] + n_[2]*n_[2] + e_[1]*e_[1] + e_[2]*e_[2])
Periodic180 == \A n_ \in Bins, e_ \in Bins : \A a \in 1..NAng :
        ProjSq(n_, e_, C(a), S(a)) = ProjSq(n_, e_, RNeg(C(a)), RNeg(S(a)))

ExportBehaviour == (Export /\ Len(ops) >= 1) =>
    PrintT(ToJson([dep |-> dep, sset |-> sset, ops |-> ops, cur |-> cur, ns |-> ns, ew |-> ew, vt |-> vt]))
=============================================================================
