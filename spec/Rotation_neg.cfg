CONSTANTS
  Angles <- AngQ
  SampleSets <- Samples
  MaxOps = 3
  SplitKeepsOrientation = FALSE
  Export = FALSE
INIT Init
NEXT Next
CHECK_DEADLOCK FALSE
INVARIANT EnergyPreserved
INVARIANT Composable
INVARIANT Invertible
INVARIANT VerticalUntouched
INVARIANT PolarisedMotionRecovered
INVARIANT ClockwiseConvention
INVARIANT RotationInvariantEnergy
INVARIANT Periodic180
CONSTRAINT ExportBehaviour
