CONSTANTS
  G = 16
  Ms = {5, 7, 9, 11}
  Export = TRUE
INIT Init
NEXT Next
CHECK_DEADLOCK FALSE
INVARIANT Normalised
INVARIANT Symmetric
INVARIANT ReproducesCubics
INVARIANT PolyRowsExact
CONSTRAINT ExportCase
