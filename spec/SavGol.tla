------------------------------- MODULE SavGol -------------------------------
(* C02, Savitzky-Golay quadratic/cubic smoothing on a linear grid: integer
   coefficients (3 m^2 - 7 - 20 i^2)/4 over the normalisation m (m^2 - 4)/3.
   TLC checks: the coefficients sum to the normalisation, are symmetric, and the
   operator reproduces every cubic with coefficients in -2..2 at every centre
   where the full window fits; every (m, centre) case is exported with the exact
   smoothed value of four integer rows.  Centres whose window would touch the
   first grid point (the 0 Hz bin of an FFT grid) or leave the grid are edge
   cases (implementation tier only: today's code returns 0 there).           *)
EXTENDS Rat, TLC, Json, FiniteSetsExt

CONSTANTS G, Ms, Export
VARIABLES m, x, done, res
vars == <<m, x, done, res>>

H(mm) == (mm - 1) \div 2
Coef(mm, i) == 3 * mm * mm - 7 - 20 * i * i          \* times 1/4
NormC(mm) == mm * (mm * mm - 4)                       \* times 1/3
SumI(lo, hi, f(_)) == FoldSet(LAMBDA i, acc : acc + f(i), 0, lo..hi)
SG(mm, s(_), c) == Q(3 * SumI(-H(mm), H(mm), LAMBDA i : Coef(mm, i) * s(c + i)), 4 * NormC(mm))

Row1(i) == i
Row2(i) == i * i
Row3(i) == (i * i * i) - 4 * i * i + 7
Row4(i) == ((i * i) % 7) + 1

Fits(mm, c)     == c - H(mm) >= 1 /\ c + H(mm) <= G
Interior(mm, c) == c - H(mm) >= 2 /\ c + H(mm) <= G      \* does not touch the first grid point

Init == m \in Ms /\ x \in 1..G /\ done = FALSE /\ res = <<>>
Evaluate == /\ ~done /\ done' = TRUE
            /\ res' = IF Fits(m, x) THEN <<SG(m, Row1, x), SG(m, Row2, x), SG(m, Row3, x), SG(m, Row4, x)>> ELSE <<>>
            /\ UNCHANGED <<m, x>>
Next == Evaluate

Normalised == \A mm \in Ms : 3 * SumI(-H(mm), H(mm), LAMBDA i : Coef(mm, i)) = 4 * NormC(mm)
Symmetric  == \A mm \in Ms : \A i \in 0..H(mm) : Coef(mm, i) = Coef(mm, -i)
Cubics == { <<a, b, c, d>> : a \in -2..2, b \in -2..2, c \in -1..1, d \in -2..2 }
ReproducesCubics ==
    (done /\ Fits(m, x)) => \A p \in Cubics :
        SG(m, LAMBDA i : p[1] * i * i * i + p[2] * i * i + p[3] * i + p[4], x)
          = R(p[1] * x * x * x + p[2] * x * x + p[3] * x + p[4])
PolyRowsExact == (done /\ Fits(m, x)) => res[1] = R(Row1(x)) /\ res[2] = R(Row2(x)) /\ res[3] = R(Row3(x))

ExportCase == (Export /\ done) =>
    PrintT(ToJson([m |-> m, x |-> x, fits |-> Fits(m, x), interior |-> Interior(m, x), res |-> res]))
=============================================================================
