------------------------------- MODULE Sesame -------------------------------
(* C16: the SESAME (2004) reliability and clarity criteria, transcribed from the
   guideline, over exact rationals.

   Frequencies are integers in units of 1/FUnit Hz (grid Freq, increasing).
   Mean curve A: positive integers; sigma_A(f) = exp(std(f)) is a rational from
   an alphabet that brackets every threshold of the guideline (the harness hands
   the functions std = ln sigma_A).  Window length LW (s), window count NW,
   standard deviation of f0 SF = SFNum/SFDen Hz.

   Reliability  i)   f0 > 10 / lw
                ii)  nc = lw * nw * f0 > 200
                iii) sigma_A(f) < 2 for 0.5 f0 < f < 2 f0 if f0 > 0.5 Hz,
                     sigma_A(f) < 3 ...                    if f0 < 0.5 Hz
   Clarity      i)   exists f- in [f0/4, f0] with A(f-) < A0/2
                ii)  exists f+ in [f0, 4 f0] with A(f+) < A0/2
                iii) A0 > 2
                iv)  peak of A(f) * sigma_A(f) and of A(f) / sigma_A(f) within 5% of f0
                v)   sigma_f < eps(f0)       vi) sigma_A(f0) < theta(f0)
                f0 (Hz):  <0.2    0.2-0.5   0.5-1.0   1.0-2.0   >2.0
                eps:      0.25f0  0.20f0    0.15f0    0.10f0    0.05f0
                theta:    3.0     2.5       2.0       1.78      1.58
   The column headings are taken literally: 0.2 Hz is in "0.2-0.5" only and
   2.0 Hz in "1.0-2.0" only, while 0.5 and 1.0 Hz appear in two columns each and
   either column is accepted there.
   Every other comparison that is an exact equality (a sample exactly on
   an interval end, a value exactly on a threshold) is a TIE: the verdict may go
   either way, the case is exported with both.  f0 is the peak of the mean curve
   inside the search range (PeakRules, property tier).                        *)
EXTENDS PeakRules, Rat, TLC, Json, FiniteSetsExt

CONSTANTS FUnit, Freq, Shapes, Sigmas, SigmaElse, LWs, NWs, SFs, SRanges, Sides, Export

NFq == Len(Freq)     \* Shapes: a set of records [a |-> curve, peak |-> index]
VARIABLES a, p0, sp, se, side, lw, nw, sf, rng, done, res
vars == <<a, p0, sp, se, side, lw, nw, sf, rng, done, res>>

A == a
P0 == p0
\* sigma_A at the peak and ONE neighbour (the right one for side = 1, the left one for side = -1) is `sp`, elsewhere `se`:
\* the other neighbour can then carry the peak of A / sigma_A (criterion iv)
SigA(j) == IF j = P0 \/ j = P0 + side THEN sp ELSE se

\* verdict values: 1 pass, 0 fail, 2 tie (either)
V(passSure, failSure) == IF passSure THEN 1 ELSE IF failSure THEN 0 ELSE 2

F0  == Q(Freq[P0], FUnit)                  \* Hz
A0  == A[P0]
Fq(j) == Q(Freq[j], FUnit)

\* order-isomorphic integer ranks of a rational curve (the peak rules only compare)
Ranks(v) == [j \in 1..NFq |-> Cardinality({ k \in 1..NFq : RLt(v[k], v[j]) })]
Upper == [j \in 1..NFq |-> RMul(R(A[j]), SigA(j))]
Lower == [j \in 1..NFq |-> RDiv(R(A[j]), SigA(j))]

RelI  == V(RLt(Q(10, lw), F0), RLt(F0, Q(10, lw)))
Nc    == RMul(R(lw * nw), F0)
RelII == V(RLt(R(200), Nc), RLt(Nc, R(200)))
InBand(j) == RLt(RMul(Q(1, 2), F0), Fq(j)) /\ RLt(Fq(j), RMul(R(2), F0))
OnBandEdge(j) == Fq(j) = RMul(Q(1, 2), F0) \/ Fq(j) = RMul(R(2), F0)
Thr3 == IF RLt(Q(1, 2), F0) THEN {R(2)} ELSE IF RLt(F0, Q(1, 2)) THEN {R(3)} ELSE {R(2), R(3)}
\* The search range locates the peak.  Whether the criteria then look at the whole curve or only at the samples
\* inside the range ("considering only frequencies between ...", what the code does) is not settled by the
\* guideline: both readings are evaluated and a criterion on which they disagree is a tie.
InRange(j) == (rng[1] = NoEnd \/ 2 * j >= rng[1]) /\ (rng[2] = NoEnd \/ 2 * j <= rng[2])
Samp(m) == IF m = "full" THEN 1..NFq ELSE { j \in 1..NFq : InRange(j) }
Readings == {"full", "trimmed"}
RelIIIFor(t, m) ==
    LET sure == { j \in Samp(m) : InBand(j) }
        edge == { j \in Samp(m) : OnBandEdge(j) }
    IN  V(\A j \in sure \cup edge : RLt(SigA(j), t), \E j \in sure : RLt(t, SigA(j)))
RelIII == LET vs == { RelIIIFor(t, m) : t \in Thr3, m \in Readings } IN IF Cardinality(vs) = 1 THEN CHOOSE v \in vs : TRUE ELSE 2

HalfA0 == Q(A0, 2)
LowSure(m)  == { j \in Samp(m) : RLt(RDiv(F0, R(4)), Fq(j)) /\ RLt(Fq(j), F0) }
LowEdge(m)  == { j \in Samp(m) : Fq(j) = RDiv(F0, R(4)) }
HighSure(m) == { j \in Samp(m) : RLt(F0, Fq(j)) /\ RLt(Fq(j), RMul(R(4), F0)) }
HighEdge(m) == { j \in Samp(m) : Fq(j) = RMul(R(4), F0) }
Below(j) == RLt(R(A[j]), HalfA0)
MergeV(vs) == IF Cardinality(vs) = 1 THEN CHOOSE v \in vs : TRUE ELSE 2
ClaI   == MergeV({ V(\E j \in LowSure(m) : Below(j), \A j \in LowSure(m) \cup LowEdge(m) : ~Below(j)) : m \in Readings })
ClaII  == MergeV({ V(\E j \in HighSure(m) : Below(j), \A j \in HighSure(m) \cup HighEdge(m) : ~Below(j)) : m \in Readings })
ClaIII == V(A0 > 2, A0 < 2)

Within5(j) == RLt(RMul(Q(95, 100), F0), Fq(j)) /\ RLt(Fq(j), RMul(Q(105, 100), F0))
On5(j)     == Fq(j) = RMul(Q(95, 100), F0) \/ Fq(j) = RMul(Q(105, 100), F0)
\* peaks of the +-sigma curves over the same (trimmed) range; 0 = no peak
UpPk == P_Allowed(Ranks(Upper), rng[1], rng[2])
LoPk == P_Allowed(Ranks(Lower), rng[1], rng[2])
ClaIV ==
    LET ok(j)  == j # 0 /\ Within5(j)
        may(j) == j # 0 /\ (Within5(j) \/ On5(j))
    \* a +-sigma curve without any peak has no peak within 5% of f0: the criterion fails
    IN  V((\A j \in UpPk : ok(j)) /\ (\A j \in LoPk : ok(j)),
          (\A j \in UpPk : ~may(j)) \/ (\A j \in LoPk : ~may(j)))

Bands == { b \in 1..5 :
            \/ b = 1 /\ RLt(F0, Q(2, 10))           \* "< 0.2": 0.2 itself is in the second column only
            \/ b = 2 /\ RLe(Q(2, 10), F0) /\ RLe(F0, Q(5, 10))
            \/ b = 3 /\ RLe(Q(5, 10), F0) /\ RLe(F0, R(1))
            \/ b = 4 /\ RLe(R(1), F0) /\ RLe(F0, R(2))
            \/ b = 5 /\ RLt(R(2), F0) }             \* "> 2.0": 2.0 itself is in the fourth column only
Eps(b)   == CASE b = 1 -> Q(25, 100) [] b = 2 -> Q(20, 100) [] b = 3 -> Q(15, 100) [] b = 4 -> Q(10, 100) [] OTHER -> Q(5, 100)
Theta(b) == CASE b = 1 -> R(3) [] b = 2 -> Q(25, 10) [] b = 3 -> R(2) [] b = 4 -> Q(178, 100) [] OTHER -> Q(158, 100)
SFq == Q(sf[1], sf[2])
Merge(vs) == IF Cardinality(vs) = 1 THEN CHOOSE v \in vs : TRUE ELSE 2
ClaV  == Merge({ V(RLt(SFq, RMul(Eps(b), F0)), RLt(RMul(Eps(b), F0), SFq)) : b \in Bands })
ClaVI == Merge({ V(RLt(SigA(P0), Theta(b)), RLt(Theta(b), SigA(P0))) : b \in Bands })

\* the shape's peak must be an answer of the peak search over the range: THE answer, or - for a flat top of two samples - one
\* of the two, the other one being the neighbour that shares sigma_A with it (so both choices describe the same input curves;
\* the harness accepts the verdicts of either choice)
PkAnswers == P_Allowed(A, rng[1], rng[2])
IsInstance == P0 \in PkAnswers /\ (PkAnswers = {P0} \/ PkAnswers = {P0, P0 + side})

Init == /\ \E s \in Shapes : a = s.a /\ p0 = s.peak
        /\ sp \in Sigmas /\ se \in SigmaElse /\ side \in Sides
        /\ lw \in LWs /\ nw \in NWs /\ sf \in SFs /\ rng \in SRanges
        /\ done = FALSE /\ res = <<>>
Evaluate == /\ ~done /\ IsInstance /\ done' = TRUE
            /\ res' = <<RelI, RelII, RelIII, ClaI, ClaII, ClaIII, ClaIV, ClaV, ClaVI>>
            /\ UNCHANGED <<a, p0, sp, se, side, lw, nw, sf, rng>>
Next == Evaluate

BandTableTotal == Cardinality(Bands) \in {1, 2}
\* more / longer windows never fail ii; a smaller sigma_f never fails v
MoreWindowsNeverFailII == done /\ res[2] = 1 => \A l2 \in LWs, n2 \in NWs : (l2 >= lw /\ n2 >= nw) => RLt(R(200), RMul(R(l2 * n2), F0))
SmallerStdNeverFailsV  == done /\ res[8] = 1 => \A s2 \in SFs : RLe(Q(s2[1], s2[2]), SFq) =>
                              \A b \in Bands : RLt(Q(s2[1], s2[2]), RMul(Eps(b), F0))
ExportCase == (Export /\ done) =>
    PrintT(ToJson([a |-> a, p0 |-> p0, npk |-> Cardinality(PkAnswers), sp |-> sp, se |-> se, side |-> side, lw |-> lw, nw |-> nw, sf |-> sf, rng |-> rng, res |-> res]))
=============================================================================
