------------------------------ MODULE SesameMC ------------------------------
EXTENDS Sesame
\* frequencies in 1/20 Hz: 0.05 0.1 0.15 0.2 0.3 0.4 0.5 0.75 1 1.5 2 3 4 8 Hz (band edges 0.2, 0.5, 1, 2 on the grid)
Freq14 == <<1, 2, 3, 4, 6, 8, 10, 15, 20, 30, 40, 60, 80, 160>>
AbsI(x) == IF x < 0 THEN -x ELSE x
Steep(p, h)  == [j \in 1..NFq |-> IF j = p THEN h ELSE 1]
Gentle(p, h) == [j \in 1..NFq |-> IF j = p THEN h ELSE IF AbsI(j - p) = 1 THEN h - 1 ELSE IF AbsI(j - p) = 2 THEN (h + 1) \div 2 ELSE 1]
LeftHeavy(p, h)  == [j \in 1..NFq |-> IF j = p THEN h ELSE IF j < p THEN h - 1 ELSE 1]
RightHeavy(p, h) == [j \in 1..NFq |-> IF j = p THEN h ELSE IF j > p THEN h - 1 ELSE 1]
ShapeSet(Ps, Hs) == { [a |-> Steep(p, h), peak |-> p] : p \in Ps, h \in Hs }
               \cup { [a |-> Gentle(p, h), peak |-> p] : p \in Ps, h \in Hs \ {2} }
               \cup { [a |-> LeftHeavy(p, h), peak |-> p] : p \in Ps, h \in Hs \ {2} }
               \cup { [a |-> RightHeavy(p, h), peak |-> p] : p \in Ps, h \in Hs \ {2} }
RECURSIVE SetToSeq(_)
SetToSeq(S) == IF S = {} THEN <<>> ELSE LET x == CHOOSE x \in S : TRUE IN <<x>> \o SetToSeq(S \ {x})
ShapesAll == ShapeSet(2..13, {2, 3, 6})
ShapesQ   == ShapeSet({3, 4, 7, 9, 11, 12}, {2, 3, 6})
SigAll == { <<150, 100>>, <<157, 100>>, <<159, 100>>, <<177, 100>>, <<179, 100>>, <<199, 100>>, <<201, 100>>,
            <<249, 100>>, <<251, 100>>, <<299, 100>>, <<301, 100>> }
SigQ == { <<157, 100>>, <<159, 100>>, <<179, 100>>, <<201, 100>>, <<251, 100>>, <<301, 100>> }
SigNorm(S) == { Q(s[1], s[2]) : s \in S }
SigQn == SigNorm(SigQ)
SigAlln == SigNorm(SigAll)
SigElse == { Q(12, 10), Q(21, 10), Q(31, 10) }
SFsAll == { <<0, 1>>, <<1, 100>>, <<1, 10>>, <<3, 10>>, <<1, 1>> }    \* 0: every accepted window peaks at the same frequency
\* a coarse grid (ratio 5 between samples): intervals (f0/4, f0) and (f0, 4 f0) contain no sample
Freq5 == <<2, 10, 50, 250, 1250>>
ShapesC == ShapeSet({2, 3, 4}, {2, 3, 6})
RangesC == { <<NoEnd, NoEnd>> }
SidesBoth == {1, -1}
\* flat-topped highest peak (two equal samples at p, p + 1) and a lower ordinary peak at q
FlatTop(p, q, h) == [j \in 1..NFq |-> IF j \in {p, p + 1} THEN h ELSE IF j = q THEN h - 1 ELSE 1]
ShapesFlat == UNION { { [a |-> FlatTop(pq[1], pq[2], h), peak |-> pq[1] + d] : d \in {0, 1} } : pq \in { <<4, 9>>, <<9, 4>>, <<7, 11>>, <<11, 6>> }, h \in {3, 6} }
\* a grid (1/1000 Hz) that is fine around f0 = 3 Hz: 0.94, 0.951, 1, 1.051, 1.06 f0 - the neighbours of the peak lie just
\* inside the 5 % band of criterion iv, the next ones just outside
Freq9 == <<700, 1500, 2820, 2853, 3000, 3153, 3180, 6000, 13000>>
Bump(h) == [j \in 1..NFq |-> IF j = 5 THEN h ELSE IF j \in {4, 6} THEN h - 1 ELSE IF j \in {3, 7} THEN h - 2 ELSE 1]
ShapesF == { [a |-> Bump(h), peak |-> 5] : h \in {4, 6, 9} }
SigF == { Q(12, 10), Q(16, 10), Q(2, 1), Q(3, 1) }
SigElseF == { Q(11, 10), Q(12, 10), Q(21, 10), Q(4, 1) }
RangesS == { <<NoEnd, NoEnd>>, <<4, 24>> }
\* two-peak curves: a peak of height h at p and a higher one (h + 2) at q; with the full range the answer is q, with a
\* HALF-OPEN range that cuts q off it is p (the record's `peak` says which; IsInstance keeps the matching combinations)
Double(p, q, h) == [j \in 1..NFq |-> IF j = p THEN h ELSE IF j = q THEN h + 2 ELSE 1]
PairsD == { <<4, 9>>, <<9, 4>>, <<7, 12>>, <<11, 6>>, <<3, 7>> }
ShapesD == { [a |-> Double(pq[1], pq[2], h), peak |-> pq[1]] : pq \in PairsD, h \in {3, 6} }
      \cup { [a |-> Double(pq[1], pq[2], h), peak |-> pq[2]] : pq \in PairsD, h \in {3, 6} }
RangesH == { <<NoEnd, NoEnd>>, <<NoEnd, 16>>, <<NoEnd, 22>>, <<NoEnd, 12>>, <<10, NoEnd>>, <<14, NoEnd>>, <<8, NoEnd>>, <<10, 22>> }
=============================================================================
