------------------------------ MODULE SesameMC ------------------------------
EXTENDS Sesame
\* frequencies in 1/20 Hz: 0.05 0.1 0.15 0.2 0.3 0.4 0.5 0.75 1 1.5 2 3 4 8 Hz (band edges 0.2, 0.5, 1, 2 on the grid)
Freq14 == <<1, 2, 3, 4, 6, 8, 10, 15, 20, 30, 40, 60, 80, 160>>
AbsI(x) == IF x < 0 THEN -x ELSE x
Steep(p, h)  == [j \in 1..NFq |-> IF j = p THEN h ELSE 1]
Gentle(p, h) == [j \in 1..NFq |-> IF j = p THEN h ELSE IF AbsI(j - p) = 1 THEN h - 1 ELSE IF AbsI(j - p) = 2 THEN (h + 1) \div 2 ELSE 1]
LeftHeavy(p, h)  == [j \in 1..NFq |-> IF j = p THEN h ELSE IF j < p THEN h - 1 ELSE 1]
RightHeavy(p, h) == [j \in 1..NFq |-> IF j = p THEN h ELSE IF j > p THEN h - 1 ELSE 1]
ShapeSet(Ps, Hs) == { [a |-> Steep(p, h), peak |-> p] : p \in Ps, h \in Hs }
               \cup { [a |-> Gentle(p, h), peak |-> p] : p \in Ps, h \in Hs \ {2} }
               \cup { [a |-> LeftHeavy(p, h), peak |-> p] : p \in Ps, h \in Hs \ {2} }
               \cup { [a |-> RightHeavy(p, h), peak |-> p] : p \in Ps, h \in Hs \ {2} }
RECURSIVE SetToSeq(_)
SetToSeq(S) == IF S = {} THEN <<>> ELSE LET x == CHOOSE x \in S : TRUE IN <<x>> \o SetToSeq(S \ {x})
ShapesAll == ShapeSet(2..13, {2, 3, 6})
ShapesQ   == ShapeSet({3, 4, 7, 9, 11, 12}, {2, 3, 6})
SigAll == { <<150, 100>>, <<157, 100>>, <<159, 100>>, <<177, 100>>, <<179, 100>>, <<199, 100>>, <<201, 100>>,
            <<249, 100>>, <<251, 100>>, <<299, 100>>, <<301, 100>> }
SigQ == { <<157, 100>>, <<159, 100>>, <<179, 100>>, <<201, 100>>, <<251, 100>>, <<301, 100>> }
SigNorm(S) == { Q(s[1], s[2]) : s \in S }
SigQn == SigNorm(SigQ)
SigAlln == SigNorm(SigAll)
SigElse == { Q(12, 10), Q(21, 10), Q(31, 10) }
SFsAll == { <<1, 100>>, <<1, 10>>, <<3, 10>>, <<1, 1>> }
\* a coarse grid (ratio 5 between samples): intervals (f0/4, f0) and (f0, 4 f0) contain no sample
Freq5 == <<2, 10, 50, 250, 1250>>
ShapesC == ShapeSet({2, 3, 4}, {2, 3, 6})
RangesC == { <<NoEnd, NoEnd>> }
RangesS == { <<NoEnd, NoEnd>>, <<4, 24>> }
=============================================================================
