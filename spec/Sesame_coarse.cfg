CONSTANTS
  FUnit = 20
  Freq <- Freq5
  Shapes <- ShapesC
  Sigmas <- SigQn
  SigmaElse <- SigElse
  LWs = {10, 60}
  NWs = {1, 40}
  SFs <- SFsAll
  SRanges <- RangesC
  Sides = {1}
  Export = TRUE
INIT Init
NEXT Next
CHECK_DEADLOCK FALSE
INVARIANT BandTableTotal
INVARIANT MoreWindowsNeverFailII
INVARIANT SmallerStdNeverFailsV
CONSTRAINT ExportCase
