CONSTANTS
  FUnit = 1000
  Freq <- Freq9
  Shapes <- ShapesF
  Sigmas <- SigF
  SigmaElse <- SigElseF
  LWs = {10, 60}
  NWs = {40}
  SFs <- SFsAll
  SRanges <- RangesC
  Sides <- SidesBoth
  Export = TRUE
INIT Init
NEXT Next
CHECK_DEADLOCK FALSE
INVARIANT BandTableTotal
INVARIANT MoreWindowsNeverFailII
INVARIANT SmallerStdNeverFailsV
CONSTRAINT ExportCase
