CONSTANTS
  FUnit = 20
  Freq <- Freq14
  Shapes <- ShapesFlat
  Sigmas <- SigQn
  SigmaElse <- SigElse
  LWs = {10, 60}
  NWs = {40}
  SFs <- SFsAll
  SRanges <- RangesS
  Sides <- SidesBoth
  Export = TRUE
INIT Init
NEXT Next
CHECK_DEADLOCK FALSE
INVARIANT BandTableTotal
INVARIANT MoreWindowsNeverFailII
INVARIANT SmallerStdNeverFailsV
CONSTRAINT ExportCase
