CONSTANTS
  FUnit = 20
  Freq <- Freq14
  Shapes <- ShapesD
  Sigmas <- SigQn
  SigmaElse <- SigElse
  LWs = {10, 60}
  NWs = {40}
  SFs <- SFsAll
  SRanges <- RangesH
  Sides = {1}
  Export = TRUE
INIT Init
NEXT Next
CHECK_DEADLOCK FALSE
INVARIANT BandTableTotal
INVARIANT MoreWindowsNeverFailII
INVARIANT SmallerStdNeverFailsV
CONSTRAINT ExportCase
