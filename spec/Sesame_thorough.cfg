CONSTANTS
  FUnit = 20
  Freq <- Freq14
  Shapes <- ShapesAll
  Sigmas <- SigAlln
  SigmaElse <- SigElse
  LWs = {10, 30, 60}
  NWs = {1, 5, 40}
  SFs <- SFsAll
  SRanges <- RangesS
  Sides = {1}
  Export = TRUE
INIT Init
NEXT Next
CHECK_DEADLOCK FALSE
INVARIANT BandTableTotal
INVARIANT MoreWindowsNeverFailII
INVARIANT SmallerStdNeverFailsV
CONSTRAINT ExportCase
