------------------------------ MODULE Session ------------------------------
(* Design-level model of a user session with hvsrpy (C09, shared with C19):
   recordings with content versions, one settings object whose stored FFT length
   is part of its state, results as values of a function of (recordings, their
   versions, FFT length actually used).
   A result is identical to an earlier one iff that key is the same, so
     Repeatable == same recordings, same versions  =>  same FFT length used.
   Ratchet = TRUE models today's prepare_fft_settings: the length chosen for a
   call is written back into the settings object and is never lowered
   (named deviation FftLengthRatchet); TLC then produces the history
   Process({small}); Process({big}); Process({small}) in which the repeat
   differs.  Ratchet = FALSE is the property-level design (length chosen per
   call), for which Repeatable, InputsUntouched and ResultsImmutable hold.     *)
EXTENDS Integers, FiniteSets, TLC

CONSTANTS Recs, Need, Ratchet, MaxVer

VARIABLES ver, sn, results, last
vars == <<ver, sn, results, last>>

MaxOf(S) == CHOOSE m \in S : \A x \in S : x <= m

Init == ver = [r \in Recs |-> 0] /\ sn = 0 /\ results = {} /\ last = "init"

Process(S) ==
    LET need == MaxOf({ Need[r] : r \in S })
        neff == IF Ratchet /\ sn > need THEN sn ELSE need
    IN  /\ results' = results \cup {[recs |-> S, vers |-> [r \in S |-> ver[r]], n |-> neff]}
        /\ sn' = IF Ratchet THEN neff ELSE sn
        /\ UNCHANGED ver                                   \* InputsUntouched
        /\ last' = "process"
Modify(r) == /\ ver[r] < MaxVer
             /\ ver' = [ver EXCEPT ![r] = @ + 1]
             /\ UNCHANGED <<sn, results>>                   \* ResultsImmutable
             /\ last' = "modify"
Next == (\E S \in (SUBSET Recs) \ {{}} : Process(S)) \/ (\E r \in Recs : Modify(r))

Repeatable       == \A a, b \in results : (a.recs = b.recs /\ a.vers = b.vers) => a.n = b.n
InputsUntouched  == [][last' = "process" => ver' = ver]_vars
ResultsImmutable == [][results \subseteq results']_vars
NeverTruncates   == \A a \in results : \A r \in a.recs : a.n >= Need[r]
\* model values for the configurations
RecsDef == {"small1", "small2", "big"}
RecsDef2 == {"small1", "big"}
NeedDef2 == [r \in RecsDef2 |-> IF r = "big" THEN 2 ELSE 1]
NeedDef == [r \in RecsDef |-> IF r = "big" THEN 2 ELSE 1]
=============================================================================
