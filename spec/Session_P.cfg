CONSTANTS
  Recs <- RecsDef
  Need <- NeedDef
  Ratchet = FALSE
  MaxVer = 1
INIT Init
NEXT Next
INVARIANT Repeatable
INVARIANT NeverTruncates
PROPERTY InputsUntouched
PROPERTY ResultsImmutable
CHECK_DEADLOCK FALSE
