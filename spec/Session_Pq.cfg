CONSTANTS
  Recs <- RecsDef2
  Need <- NeedDef2
  Ratchet = FALSE
  MaxVer = 1
INIT Init
NEXT Next
INVARIANT Repeatable
INVARIANT NeverTruncates
PROPERTY InputsUntouched
PROPERTY ResultsImmutable
CHECK_DEADLOCK FALSE
