CONSTANTS
  M = 9
  Bs = {1, 2, 3, 5, 8}
  Export = TRUE
INIT Init
NEXT Next
CHECK_DEADLOCK FALSE
INVARIANT Refines
INVARIANT BetweenMinMax
CONSTRAINT ExportCase
