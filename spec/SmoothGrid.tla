----------------------------- MODULE SmoothGrid -----------------------------
(* C02 on FFT-like grids: samples at i*df (i = 0..M, i = 0 is the 0 Hz bin),
   centre at (C2/2)*df (on-grid and half-way off-grid, below the first bin and
   above the last), bandwidth B*df, linear rectangular / triangular kernels.
   Membership: |2i - C2| <= B (equality = tie); triangular weight
   (B - |2i - C2|)/B.  The 0 Hz bin inside a linear window: the published kernel
   would count it, today's code skips every f < 1e-6 - the property tier accepts
   either (`zero` lists it).  Values returned exactly for rows A[i] = i + 1 and
   B[i] = ((i*i) % 5) + 1; empty window = 0.                                  *)
EXTENDS Rat, TLC, Json, FiniteSetsExt

CONSTANTS M, Bs, Export
VARIABLES c2, b, done, res
vars == <<c2, b, done, res>>

RowA(i) == i + 1
RowB(i) == ((i * i) % 5) + 1
D(i) == Abs(2 * i - c2)
InsideSure == { i \in 1..M : D(i) < b }
OnEdge     == { i \in 1..M : D(i) = b }
ZeroBin    == IF D(0) <= b THEN {0} ELSE {}

WRect(i) == R(1)
WTri(i)  == Q(b - D(i), b)
Avg(S, w(_), row(_)) ==
    LET ws == FoldSet(LAMBDA i, acc : RAdd(acc, w(i)), R(0), S)
    IN  IF RIsZero(ws) THEN R(0)
        ELSE RDiv(FoldSet(LAMBDA i, acc : RAdd(acc, RMul(w(i), R(row(i)))), R(0), S), ws)

Init == c2 \in (-3)..(2 * M + 6) /\ b \in Bs /\ done = FALSE /\ res = <<>>
\* all property-level answers: every subset of the edge samples, with and without the 0 Hz bin
Answers(w(_), row(_)) == { Avg(InsideSure \cup e \cup z, w, row) : e \in SUBSET OnEdge, z \in SUBSET ZeroBin }
SymAnswers(row(_)) == { Avg(InsideSure \cup e \cup z, WRect, row) : e \in {{}, OnEdge}, z \in SUBSET ZeroBin }
Evaluate == /\ ~done /\ done' = TRUE
            /\ res' = [rectA |-> Answers(WRect, RowA), rectB |-> Answers(WRect, RowB),
                       triA |-> Answers(WTri, RowA), triB |-> Answers(WTri, RowB),
                       iRectA |-> Avg(InsideSure \cup OnEdge, WRect, RowA), iTriB |-> Avg(InsideSure \cup OnEdge, WTri, RowB),
                       \* on a grid where every quantity is exact in binary the edges are decided exactly, and the kernel is a
                       \* SYMMETRIC function of f - fc: both edge samples count (closed window) or neither (open window)
                       symA |-> SymAnswers(RowA), symB |-> SymAnswers(RowB)]
            /\ UNCHANGED <<c2, b>>
Next == Evaluate
Refines == done => res.iRectA \in res.rectA /\ res.iTriB \in res.triB /\ res.iRectA \in res.symA /\ res.symA \subseteq res.rectA
BetweenMinMax == done => \A v \in res.rectB \cup res.triB : RIsZero(v) \/ (RLe(R(1), v) /\ RLe(v, R(5)))
EdgeOnly == InsideSure = {} /\ OnEdge # {}
ExportCase == (Export /\ done) =>
    PrintT(ToJson([c2 |-> c2, b |-> b, res |-> res, centreBelowZero |-> c2 <= 0, edgeOnly |-> EdgeOnly,
                   edgeA |-> IF EdgeOnly THEN <<Min({RowA(i) : i \in OnEdge}), Max({RowA(i) : i \in OnEdge})>> ELSE <<>>,
                   edgeB |-> IF EdgeOnly THEN <<Min({RowB(i) : i \in OnEdge}), Max({RowB(i) : i \in OnEdge})>> ELSE <<>>]))
=============================================================================
