----------------------------- MODULE Smoothing -----------------------------
(* C02: the seven smoothing operators as published, weight-normalised kernels.

   A case is one centre frequency with a set of populated OFFSET CLASSES; every
   populated class contributes one spectral sample.  A class carries the
   kernel's relative weight as an exact rational:
     * sinc^4 kernels (Konno-Ohmachi in log10 f, Parzen in f): nice abscissae
       u in +-{pi/6, pi/4, pi/3, pi/2, 2pi/3, 3pi/4, 5pi/6} where
       (sin u / u)^4 = r / pi^4 with r = 81, 64, 729/16, 16, 729/256, 64/81,
       81/625; u = k pi has weight exactly 0; the centre (u = 0) has weight 1,
       which is not commensurable with the others, so the result is returned
       as ingredients  (c pi^4 s0 + A) / (c pi^4 + B);
     * rectangular: weight 1 inside |t| <= 1, triangular: 1 - |t|, with
       t = offset / half-width on classes just inside / outside the limit
       (|t| = 1 exactly is a tie);
     * Savitzky-Golay: integer coefficients (3m^2 - 7 - 20 i^2)/4 over
       m (m^2 - 4)/3 on a linear grid.
   Rows: A[i] = i, B[i] = i^2 mod 5 + 1, C = 2A + 3B, D = 7 (i = class index).
   TLC checks on every case: a constant row is reproduced, non-negative kernels
   stay between the smallest and largest contributing sample, linearity, zero
   iff the window is empty, S-G reproduces cubics.                           *)
EXTENDS Rat, TLC, Json, FiniteSetsExt

CONSTANTS Kernel,      \* "sinc4" | "rect" | "tri"
          Classes,     \* sequence of records [u |-> label, w |-> Rat, centre |-> BOOLEAN, tier |-> "P"|"I"|"tie"]
          SumInSpec,   \* TRUE: the weighted sums are computed (and the algebra checked) by TLC;
                       \* FALSE (large alphabets: the common denominator of the nice weights exceeds 32 bits):
                       \* TLC enumerates the cases and exports the class table, the sums are formed by the harness
                       \* in exact fractions from that table
          Export

NC == Len(Classes)
VARIABLES pop, done, res
vars == <<pop, done, res>>

RowA(i) == i
RowB(i) == ((i * i) % 5) + 1
RowC(i) == 2 * RowA(i) + 3 * RowB(i)
RowD(i) == 7

\* contributing classes: populated, not the centre, weight counted by the property tier
Contrib == { i \in pop : ~Classes[i].centre /\ Classes[i].tier = "P" }
Centre  == { i \in pop : Classes[i].centre }

Acc(row(_)) == FoldSet(LAMBDA i, acc : RAdd(acc, RMul(Classes[i].w, R(row(i)))), R(0), Contrib)
WSum        == FoldSet(LAMBDA i, acc : RAdd(acc, Classes[i].w), R(0), Contrib)
S0(row(_))  == IF Centre = {} THEN 0 ELSE row(CHOOSE i \in Centre : TRUE)
HasCentre   == Centre # {}

Result(row(_)) == [c |-> IF HasCentre THEN 1 ELSE 0, s0 |-> S0(row), A |-> Acc(row), B |-> WSum]

Init == pop \in SUBSET (1..NC) /\ done = FALSE /\ res = <<>>
Evaluate == /\ ~done /\ done' = TRUE
            /\ res' = IF SumInSpec THEN <<Result(RowA), Result(RowB), Result(RowC), Result(RowD)>> ELSE <<>>
            /\ UNCHANGED pop
Next == Evaluate

Empty == ~HasCentre /\ RIsZero(WSum)

ConstantReproduced == (done /\ SumInSpec) => (res[4].A = RMul(R(7), res[4].B) /\ (HasCentre => res[4].s0 = 7))
Linear == (done /\ SumInSpec) => /\ res[3].A = RAdd(RMul(R(2), res[1].A), RMul(R(3), res[2].A))
                  /\ res[3].s0 = 2 * res[1].s0 + 3 * res[2].s0
                  /\ res[3].B = res[1].B /\ res[2].B = res[1].B
\* non-negative weights: the average lies between the smallest and largest contributing sample
Between == (done /\ SumInSpec /\ ~Empty) =>
    LET S == { i \in pop : Classes[i].centre \/ (Classes[i].tier = "P" /\ ~RIsZero(Classes[i].w)) }
        lo == Min({ RowB(i) : i \in S })
        hi == Max({ RowB(i) : i \in S })
    IN  /\ RLe(RMul(R(lo), res[2].B), res[2].A) /\ RLe(res[2].A, RMul(R(hi), res[2].B))
        /\ (HasCentre => lo <= res[2].s0 /\ res[2].s0 <= hi)
NonNegative == \A i \in 1..NC : RSign(Classes[i].w) >= 0
ZeroIffEmpty == (done /\ SumInSpec) => (Empty <=> (res[1].c = 0 /\ RIsZero(res[1].B)))

ExportCase == (Export /\ done) =>
    PrintT(ToJson([pop |-> pop, res |-> res, empty |-> (IF SumInSpec THEN Empty ELSE \A i \in Contrib \cup Centre : ~Classes[i].centre /\ RIsZero(Classes[i].w)),
                   table |-> IF pop = {} THEN Classes ELSE <<>>,
                   ties |-> { i \in pop : Classes[i].tier = "tie" },
                   itier |-> { i \in pop : Classes[i].tier = "I" }]))
=============================================================================
