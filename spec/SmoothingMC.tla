---------------------------- MODULE SmoothingMC ----------------------------
EXTENDS Smoothing
Cl(u, w, c, t) == [u |-> u, w |-> w, centre |-> c, tier |-> t]
\* sinc^4: abscissa label = u in units of pi/12; relative weights in units of 1/pi^4
Sinc4Classes == <<
  Cl(0,   <<0, 1>>, TRUE,  "P"),
  Cl(2,   <<81, 1>>, FALSE, "P"),   Cl(-2,  <<81, 1>>, FALSE, "P"),      \* pi/6
  Cl(3,   <<64, 1>>, FALSE, "P"),   Cl(-3,  <<64, 1>>, FALSE, "P"),      \* pi/4
  Cl(4,   <<729, 16>>, FALSE, "P"), Cl(-4,  <<729, 16>>, FALSE, "P"),    \* pi/3
  Cl(6,   <<16, 1>>, FALSE, "P"),   Cl(-6,  <<16, 1>>, FALSE, "P"),      \* pi/2
  Cl(8,   <<729, 256>>, FALSE, "P"), Cl(-8, <<729, 256>>, FALSE, "P"),   \* 2pi/3
  Cl(9,   <<64, 81>>, FALSE, "P"),  Cl(-9,  <<64, 81>>, FALSE, "P"),     \* 3pi/4
  Cl(10,  <<81, 625>>, FALSE, "P"), Cl(-10, <<81, 625>>, FALSE, "P"),    \* 5pi/6
  Cl(12,  <<0, 1>>, FALSE, "P"),    Cl(-12, <<0, 1>>, FALSE, "P"),       \* pi : weight exactly 0
  Cl(14,  <<0, 1>>, FALSE, "I") >>                                       \* 7pi/6: beyond today's cut-off (I tier only)
\* a smaller alphabet for the quick run
Sinc4Small == << Sinc4Classes[1], Sinc4Classes[2], Sinc4Classes[5], Sinc4Classes[6], Sinc4Classes[8],
                 Sinc4Classes[11], Sinc4Classes[14], Sinc4Classes[15], Sinc4Classes[16], Sinc4Classes[18] >>
\* rect / tri: label = t in hundredths of the half width
RectClasses == << Cl(0, <<1,1>>, FALSE, "P"), Cl(25, <<1,1>>, FALSE, "P"), Cl(-50, <<1,1>>, FALSE, "P"),
                  Cl(75, <<1,1>>, FALSE, "P"), Cl(-99, <<1,1>>, FALSE, "P"), Cl(99, <<1,1>>, FALSE, "P"),
                  Cl(100, <<1,1>>, FALSE, "tie"), Cl(-101, <<0,1>>, FALSE, "P"), Cl(101, <<0,1>>, FALSE, "P"),
                  Cl(150, <<0,1>>, FALSE, "P") >>
TriClasses  == << Cl(0, <<1,1>>, FALSE, "P"), Cl(25, <<3,4>>, FALSE, "P"), Cl(-50, <<1,2>>, FALSE, "P"),
                  Cl(75, <<1,4>>, FALSE, "P"), Cl(-99, <<1,100>>, FALSE, "P"), Cl(99, <<1,100>>, FALSE, "P"),
                  Cl(100, <<0,1>>, FALSE, "tie"), Cl(-101, <<0,1>>, FALSE, "P"), Cl(101, <<0,1>>, FALSE, "P"),
                  Cl(150, <<0,1>>, FALSE, "P") >>
=============================================================================
