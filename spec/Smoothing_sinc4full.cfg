CONSTANTS
  Kernel = "sinc4"
  Classes <- Sinc4Classes
  SumInSpec = FALSE
  Export = TRUE
INIT Init
NEXT Next
CHECK_DEADLOCK FALSE
INVARIANT ConstantReproduced
INVARIANT Linear
INVARIANT Between
INVARIANT NonNegative
INVARIANT ZeroIffEmpty
CONSTRAINT ExportCase
