CONSTANTS
  Kernel = "tri"
  Classes <- TriClasses
  SumInSpec = TRUE
  Export = TRUE
INIT Init
NEXT Next
CHECK_DEADLOCK FALSE
INVARIANT ConstantReproduced
INVARIANT Linear
INVARIANT Between
INVARIANT NonNegative
INVARIANT ZeroIffEmpty
CONSTRAINT ExportCase
