------------------------------ MODULE Spectral ------------------------------
(* C01: an HVSR curve is the smoothed combined-horizontal amplitude spectrum
   divided by the smoothed vertical amplitude spectrum, at the requested centres.

   Frequency-domain methods.  A window is given by its amplitude spectrum on K
   interior FFT bins: per bin a triple <<|NS|, |EW|, |VT|>> of positive integers
   (the harness realises it as irfft of these magnitudes with seeded phases, FFT
   length = window length, rectangular taper).  Combine returns either a rational
   or the square root of a rational ("sqrt" kind: the value returned is the
   SQUARE, the harness takes one square root):
       arithmetic mean (a+b)/2        squared average sqrt((a^2+b^2)/2)
       geometric mean sqrt(ab)        total horizontal energy sqrt(a^2+b^2)
       maximum max(a,b)
   Smoothing kernels on the bin grid: "bin" = the centre bin alone (rectangular
   window narrower than one bin), "tri" = linear triangular of half width 2 bins
   (weights 1/2, 1, 1/2).  The curve at centre c is
       ( sum_d w_d * Combine(bin c+d) ) / ( sum_d w_d * VT(bin c+d) )
   exported as ingredients.  TLC checks on every case: invariance under a common
   factor, linearity in the horizontals, inverse proportionality to the vertical,
   the closed form combine(A,B)/C for proportional components, and that aliases
   name the same function.

   Time-domain methods (single azimuth, RotDpp) use complex bins (Gaussian
   integers) and Pythagorean azimuths: |c NS + s EW|^2 is rational.           *)
EXTENDS Rat, TLC, Json, FiniteSetsExt

CONSTANTS K, Triples, Methods, Kernels, Export

VARIABLES bins, method, kernel, done, res
vars == <<bins, method, kernel, done, res>>

\* canonical function behind every accepted method name
Canon(m) == CASE m \in {"squared_average", "quadratic_mean", "root_mean_square", "effective_amplitude_spectrum"} -> "squared_average"
              [] m \in {"total_horizontal_energy", "vector_summation"} -> "total_horizontal_energy"
              [] OTHER -> m

\* value representation: [kind |-> "rat" | "sqrt", v |-> Rat]  ("sqrt": v is the square of the value)
Combine(m, a, b) ==
    CASE Canon(m) = "arithmetic_mean"          -> [kind |-> "rat",  v |-> Q(a + b, 2)]
      [] Canon(m) = "squared_average"          -> [kind |-> "sqrt", v |-> Q(a * a + b * b, 2)]
      [] Canon(m) = "geometric_mean"           -> [kind |-> "sqrt", v |-> R(a * b)]
      [] Canon(m) = "total_horizontal_energy"  -> [kind |-> "sqrt", v |-> R(a * a + b * b)]
      [] OTHER                                 -> [kind |-> "rat",  v |-> R(IF a > b THEN a ELSE b)]      \* maximum_horizontal_value

Offsets(kn) == IF kn = "bin" THEN {0} ELSE {-1, 0, 1}
Weight(kn, d) == IF kn = "bin" \/ d = 0 THEN R(1) ELSE Q(1, 2)
Centres(kn) == IF kn = "bin" THEN 1..K ELSE 2..(K - 1)

\* ingredients of the curve at centre c: horizontal terms <<weight, kind, v>>, vertical = sum of weight * VT
Curve(m, kn, bb) ==
    [c \in Centres(kn) |->
        [h |-> [d \in Offsets(kn) |-> <<Weight(kn, d), Combine(m, bb[c + d][1], bb[c + d][2])>>],
         v |-> FoldSet(LAMBDA d, acc : RAdd(acc, RMul(Weight(kn, d), R(bb[c + d][3]))), R(0), Offsets(kn))]]

Init == /\ bins \in [1..K -> Triples] /\ method \in Methods /\ kernel \in Kernels
        /\ done = FALSE /\ res = <<>>
Evaluate == ~done /\ done' = TRUE /\ res' = Curve(method, kernel, bins) /\ UNCHANGED <<bins, method, kernel>>
Next == Evaluate

\* multiply all three / the horizontals / the vertical by an integer factor
ScaleB(bb, fh, fv) == [k \in 1..K |-> <<bb[k][1] * fh, bb[k][2] * fh, bb[k][3] * fv>>]
\* value of a horizontal term under scaling by f: rat -> f v, sqrt -> f^2 v
Scaled(t, f) == IF t.kind = "rat" THEN [t EXCEPT !.v = RMul(R(f), t.v)] ELSE [t EXCEPT !.v = RMul(R(f * f), t.v)]
ScaleLaws ==
    \A f \in {2, 3} : \A c \in Centres(kernel) : \A d \in Offsets(kernel) :
        LET base == Curve(method, kernel, bins)[c]
            all_ == Curve(method, kernel, ScaleB(bins, f, f))[c]
            hor  == Curve(method, kernel, ScaleB(bins, f, 1))[c]
            ver  == Curve(method, kernel, ScaleB(bins, 1, f))[c]
        IN  /\ all_.h[d][2] = Scaled(base.h[d][2], f) /\ all_.v = RMul(R(f), base.v)   \* ratio unchanged
            /\ hor.h[d][2] = Scaled(base.h[d][2], f) /\ hor.v = base.v                 \* linear in the horizontals
            /\ ver.h[d][2] = base.h[d][2] /\ ver.v = RMul(R(f), base.v)                \* inverse in the vertical
\* proportional components ns = A s, ew = B s, vt = C s: every horizontal term is combine(A,B) * s, the vertical C * s
ProportionalFlat ==
    \A A \in {1, 3}, B \in {2, 3}, C \in {1, 2} :
        LET bb == [k \in 1..K |-> <<A * bins[k][3], B * bins[k][3], C * bins[k][3]>>]
            cu == Curve(method, kernel, bb)
            cl == Combine(method, A, B)
        IN  \A c \in Centres(kernel) : \A d \in Offsets(kernel) :
                cu[c].h[d][2] = Scaled(cl, bins[c + d][3])
AliasesEqual == \A a, b \in {0, 1, 2, 5} : Combine(method, a + 1, b + 1) = Combine(Canon(method), a + 1, b + 1)

ExportCase == (Export /\ done) => PrintT(ToJson([bins |-> bins, method |-> method, kernel |-> kernel, curve |-> res]))
TriplesDef == { <<3, 4, 5>>, <<1, 7, 5>>, <<4, 9, 6>>, <<2, 2, 1>>, <<6, 8, 2>> }
TriplesQ == { <<3, 4, 5>>, <<1, 7, 5>>, <<4, 9, 6>>, <<6, 8, 2>> }
AllNames == { "arithmetic_mean", "squared_average", "quadratic_mean", "root_mean_square", "effective_amplitude_spectrum",
              "geometric_mean", "total_horizontal_energy", "vector_summation", "maximum_horizontal_value" }
=============================================================================
