CONSTANTS
  K = 2
  CBins <- CBinsDef
  Az <- AzDef
  Export = TRUE
INIT Init
NEXT Next
CHECK_DEADLOCK FALSE
INVARIANT NorthIsNs
INVARIANT EastIsEw
INVARIANT RotBounds
CONSTRAINT ExportCase
