----------------------------- MODULE SpectralAz -----------------------------
(* C01, time-domain combinations: single azimuth and RotDpp.
   Per interior bin: NS and EW are Gaussian integers <<re, im>> (the harness
   realises them as irfft of exactly these complex values), |VT| a positive
   integer; an azimuth is a Pythagorean rotation <<c, s>>.  The horizontal along
   azimuth a is  h(t) = ns(t) cos a + ew(t) sin a, so its spectrum at the bin is
   c NS + s EW and  |H|^2 = (c NSr + s EWr)^2 + (c NSi + s EWi)^2  is rational.
   With the one-bin smoother the single-azimuth curve is sqrt(|H|^2) / |VT| and
   RotDpp over an azimuth set is the p-th percentile over the azimuths of those
   values (0 = minimum, 100 = maximum, 50 = middle one of three).              *)
EXTENDS Rat, TLC, Json, FiniteSetsExt

CONSTANTS K, CBins, Az, Export     \* Az: sequence of [c |-> Rat, s |-> Rat]
VARIABLES nsb, ewb, vtb, done, res
vars == <<nsb, ewb, vtb, done, res>>

HSq(k, a) == LET c == Az[a].c  s == Az[a].s
             IN  RAdd(RSq(RAdd(RMul(c, R(nsb[k][1])), RMul(s, R(ewb[k][1])))), RSq(RAdd(RMul(c, R(nsb[k][2])), RMul(s, R(ewb[k][2])))))
NA == Len(Az)
Sorted3(k) == LET S == { HSq(k, a) : a \in 1..3 }
                  mn == CHOOSE x \in S : \A y \in S : RLe(x, y)
                  mx == CHOOSE x \in S : \A y \in S : RLe(y, x)
                  md == IF Cardinality(S) = 3 THEN CHOOSE x \in S : x # mn /\ x # mx
                        ELSE IF Cardinality({ a \in 1..3 : HSq(k, a) = mn }) >= 2 THEN mn ELSE mx
              IN <<mn, md, mx>>
Init == /\ nsb \in [1..K -> CBins] /\ ewb \in [1..K -> CBins] /\ vtb \in [1..K -> {1, 2}]
        /\ done = FALSE /\ res = <<>>
Evaluate == ~done /\ done' = TRUE
            /\ res' = [k \in 1..K |-> [hsq |-> [a \in 1..NA |-> HSq(k, a)], rot |-> Sorted3(k), vt |-> vtb[k]]]
            /\ UNCHANGED <<nsb, ewb, vtb>>
Next == Evaluate
\* azimuth 1 is north (c = 1, s = 0): the north component itself; azimuth 2 is east
NorthIsNs == \A k \in 1..K : HSq(k, 1) = R(nsb[k][1] * nsb[k][1] + nsb[k][2] * nsb[k][2])
EastIsEw  == \A k \in 1..K : HSq(k, 2) = R(ewb[k][1] * ewb[k][1] + ewb[k][2] * ewb[k][2])
RotBounds == \A k \in 1..K : LET r == Sorted3(k) IN RLe(r[1], r[2]) /\ RLe(r[2], r[3]) /\ \A a \in 1..3 : RLe(r[1], HSq(k, a)) /\ RLe(HSq(k, a), r[3])
ExportCase == (Export /\ done) => PrintT(ToJson([ns |-> nsb, ew |-> ewb, vt |-> vtb, res |-> res]))
CBinsDef == { <<1, 2>>, <<-3, 1>>, <<2, -2>> }
AzDef == << [c |-> R(1), s |-> R(0)], [c |-> R(0), s |-> R(1)], [c |-> Q(4, 5), s |-> Q(3, 5)], [c |-> Q(-5, 13), s |-> Q(12, 13)] >>
=============================================================================
