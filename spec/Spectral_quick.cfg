CONSTANTS
  K = 4
  Triples <- TriplesQ
  Methods <- AllNames
  Kernels = {"bin", "tri"}
  Export = TRUE
INIT Init
NEXT Next
CHECK_DEADLOCK FALSE
INVARIANT ScaleLaws
INVARIANT ProportionalFlat
INVARIANT AliasesEqual
CONSTRAINT ExportCase
