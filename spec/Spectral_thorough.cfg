CONSTANTS
  K = 5
  Triples <- TriplesDef
  Methods <- AllNames
  Kernels = {"bin", "tri"}
  Export = TRUE
INIT Init
NEXT Next
CHECK_DEADLOCK FALSE
INVARIANT ScaleLaws
INVARIANT ProportionalFlat
INVARIANT AliasesEqual
CONSTRAINT ExportCase
