------------------------------- MODULE Split -------------------------------
(* C10: window tiling of a record and the order of the preprocessing steps.
   A record has N samples at sampling rate Fs (time step 1/Fs); the requested
   window length is L = LNum / (2 Fs) seconds, i.e. LNum half sample intervals
   (LNum even: an exact multiple of the time step, which "counts in full").
   k = number of whole sample intervals in L = LNum \div 2  (exact arithmetic).
   Windows: j = 0 .. nW-1 starts on sample j*k and spans k+1 samples; only a
   final window that ends with the record may be one sample short; nW = N \div k;
   nW = 0 is an error.  (k = N: the single window would be one sample short AND
   longer than the record - the statement allows reading it either way: tie.)  *)
EXTENDS Integers, Sequences, TLC, Json

CONSTANTS NMax, KMax, FsSet, Export

VARIABLES n, fs, lnum, done, res
vars == <<n, fs, lnum, done, res>>

K == lnum \div 2
NW == n \div K
Window(j) == [start |-> j * K, len |-> IF j * K + K + 1 <= n THEN K + 1 ELSE n - j * K]
P_Windows == [j \in 1..NW |-> Window(j - 1)]
IsError == NW = 0
Tie == K = n

Init == /\ n \in 1..NMax /\ fs \in FsSet /\ lnum \in 2..(2 * KMax + 1)
        /\ done = FALSE /\ res = <<>>
Evaluate == /\ ~done /\ done' = TRUE
            /\ res' = IF IsError THEN <<>> ELSE P_Windows
            /\ UNCHANGED <<n, fs, lnum>>
Next == Evaluate

Ok == done /\ ~IsError
StartsOnJK          == Ok => \A j \in 1..Len(res) : res[j].start = (j - 1) * K
ShareBoundarySample == Ok => \A j \in 1..(Len(res) - 1) : res[j].start + res[j].len - 1 = res[j + 1].start
SpanKPlus1          == Ok => \A j \in 1..Len(res) :
                               \/ res[j].len = K + 1
                               \/ j = Len(res) /\ res[j].len = K /\ res[j].start + res[j].len = n
InsideRecord        == Ok => \A j \in 1..Len(res) : res[j].start + res[j].len <= n
\* the discarded tail is shorter than one window (fewer than k intervals left after the last boundary sample)
TailShorter         == Ok => LET last == res[Len(res)] IN n - (last.start + last.len) < K
TooLongIsError      == done => (IsError <=> K > n)
\* an exact multiple counts in full: lnum = 2m gives exactly m intervals, 2m+1 as well (the half is dropped)
ExactMultiple       == done => K * 2 <= lnum /\ lnum < (K + 1) * 2

ExportCase == (Export /\ done) =>
    PrintT(ToJson([n |-> n, fs |-> fs, lnum |-> lnum, k |-> K, err |-> IsError, tie |-> Tie, win |-> res]))

=============================================================================
