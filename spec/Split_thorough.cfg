CONSTANTS
  NMax = 80
  KMax = 14
  FsSet = {1, 4, 50, 75, 100, 128, 150, 200, 300, 500}
  Export = TRUE
INIT Init
NEXT Next
CHECK_DEADLOCK FALSE
INVARIANT StartsOnJK
INVARIANT ShareBoundarySample
INVARIANT SpanKPlus1
INVARIANT InsideRecord
INVARIANT TailShorter
INVARIANT TooLongIsError
INVARIANT ExactMultiple
CONSTRAINT ExportCase
