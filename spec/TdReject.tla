------------------------------ MODULE TdReject ------------------------------
(* C13: time-domain window rejection (STA/LTA and maximum value).
   A window is, per component, a sequence of STA chunk levels (the mean absolute
   amplitude of each short-term chunk - realised by the harness as +-level square
   waves on a power-of-two time step, so the levels are exact).  The long-term
   average is the mean over the first LtaChunks chunks of the window (what the
   function defines: the leading lta_seconds of the window itself).
   P tier: keep exactly the windows all of whose examined components have every
   ratio STA/LTA inside [lo, hi]; a ratio exactly on a limit is a tie (either).
   I tier: components examined in the given order with early exit, limits
   inclusive.                                                                 *)
EXTENDS Rat, TLC, Json, FiniteSetsExt

CONSTANTS NWin, Patterns, LtaChunks, CompSets, Limits, MaxThr, Export,
          LtaHalf     \* TRUE: the long-term window covers LtaChunks + 1/2 short-term chunks (lta_seconds not a multiple of sta_seconds)
\* Limits and MaxThr are sequences of equal length: one index selects both criteria

Comps == <<"ns", "ew", "vt">>
CompIdx(c) == CHOOSE i \in 1..3 : Comps[i] = c
Win == 1..NWin

VARIABLES pat,    \* pat[w][i] : index into Patterns of component i of window w
          comps,  \* sequence of examined components
          lim,    \* <<lo, hi>> rationals
          thr,    \* <<threshold rational, normalised?>> for the maximum-value criterion
          done,
          res     \* result record
vars == <<pat, comps, lim, thr, done, res>>

Chunk(w, i) == Patterns[pat[w][i]]
\* mean absolute amplitude of the leading lta_seconds of the window: whole chunks, plus half of the next one if LtaHalf
Lta(w, i)   == LET q == Chunk(w, i)
               IN  IF LtaHalf THEN Q(2 * ISumSeq(SubSeq(q, 1, LtaChunks)) + q[LtaChunks + 1], 2 * LtaChunks + 1)
                   ELSE Q(ISumSeq(SubSeq(q, 1, LtaChunks)), LtaChunks)
Ratio(w, i, k) == RDiv(R(Chunk(w, i)[k]), Lta(w, i))

InsideStrict(x, l) == RLt(l[1], x) /\ RLt(x, l[2])
OnLimit(x, l)      == x = l[1] \/ x = l[2]
InsideIncl(x, l)   == RLe(l[1], x) /\ RLe(x, l[2])

\* The verdict of a component depends on its chunk pattern and the limits only: tabulated once (a constant-level definition,
\* evaluated by TLC a single time) - 2 = every ratio strictly inside, 1 = inside or on a limit, 0 = some ratio outside.
LtaOfPattern(q) == IF LtaHalf THEN Q(2 * ISumSeq(SubSeq(q, 1, LtaChunks)) + q[LtaChunks + 1], 2 * LtaChunks + 1)
                   ELSE Q(ISumSeq(SubSeq(q, 1, LtaChunks)), LtaChunks)
PatVerdict(q, l) == LET lta == LtaOfPattern(q)
                    IN  IF \A k \in 1..Len(q) : InsideStrict(RDiv(R(q[k]), lta), l) THEN 2
                        ELSE IF \A k \in 1..Len(q) : InsideIncl(RDiv(R(q[k]), lta), l) THEN 1 ELSE 0
VerdictTable == [p \in 1..Len(Patterns) |-> [k \in 1..Len(Limits) |-> PatVerdict(Patterns[p], Limits[k])]]
LimIdx(l) == CHOOSE k \in 1..Len(Limits) : Limits[k] = l
CompSure(w, c, l) == VerdictTable[pat[w][CompIdx(c)]][LimIdx(l)] = 2
CompMay(w, c, l)  == VerdictTable[pat[w][CompIdx(c)]][LimIdx(l)] >= 1

RangeOf(s) == { s[i] : i \in 1..Len(s) }

\* property tier: a window must be kept if surely inside, must be rejected if some ratio is surely outside
MustKeep(w, cs, l)   == \A c \in RangeOf(cs) : CompSure(w, c, l)
MayKeep(w, cs, l)    == \A c \in RangeOf(cs) : CompMay(w, c, l)
P_Selections(cs, l)  == { S \in SUBSET Win : (\A w \in Win : MustKeep(w, cs, l) => w \in S) /\ (\A w \in S : MayKeep(w, cs, l)) }

\* implementation tier: for component in components: ... break on the first failing one, else keep
RECURSIVE I_KeepFrom(_, _, _, _)
I_KeepFrom(w, cs, l, j) == IF j > Len(cs) THEN TRUE
                           ELSE IF ~CompMay(w, cs[j], l) THEN FALSE ELSE I_KeepFrom(w, cs, l, j + 1)
I_Selection(cs, l) == { w \in Win : I_KeepFrom(w, cs, l, 1) }

\* maximum-value criterion: largest absolute sample of the examined components (the peak of a
\* +-level square wave is its largest level), optionally relative to the overall largest
PeakOf(w, cs) == Max({ Max(RangeOf(Chunk(w, CompIdx(c)))) : c \in RangeOf(cs) })
Overall(cs)   == Max({ PeakOf(w, cs) : w \in Win })
MV(w, cs, t)  == IF t[2] THEN Q(PeakOf(w, cs), Overall(cs)) ELSE R(PeakOf(w, cs))
\* "below the threshold" is decided exactly also at equality: the quotient of two floats that equals the threshold is
\* computed as the threshold (correctly rounded division, x/x = 1), so a window ON the threshold is not kept
P_MaxSelections(cs, t) == { { w \in Win : RLt(MV(w, cs, t), t[1]) } }
I_MaxSelection(cs, t) == { w \in Win : RLt(MV(w, cs, t), t[1]) }

\* the three components of a window have the same duration; different windows may differ (mixed-duration lists)
Init == /\ pat \in [Win -> [1..3 -> 1..Len(Patterns)]]
        /\ \A w \in Win : \A i, j \in 1..3 : Len(Patterns[pat[w][i]]) = Len(Patterns[pat[w][j]])
        /\ comps \in CompSets
        /\ \E k \in 1..Len(Limits) : lim = Limits[k] /\ thr = MaxThr[k]
        /\ done = FALSE
        /\ res = [sel |-> {}, msel |-> {}]

Evaluate == /\ ~done /\ done' = TRUE
            /\ res' = [sel |-> I_Selection(comps, lim), msel |-> I_MaxSelection(comps, thr)]
            /\ UNCHANGED <<pat, comps, lim, thr>>
Next == Evaluate
Done == done

Refines     == Done => res.sel \in P_Selections(comps, lim) /\ res.msel \in P_MaxSelections(comps, thr)
\* examining several components = conjunction of examining each
Conjunction == Done => \A S \in P_Selections(comps, lim) : \A w \in S : \A c \in RangeOf(comps) : w \in UNION P_Selections(<<c>>, lim)
ConjunctionI == Done => res.sel = { w \in Win : \A c \in RangeOf(comps) : w \in I_Selection(<<c>>, lim) }
\* widening the limits can only turn reject into keep
Monotone    == Done => \A l2 \in RangeOf(Limits) : (RLe(l2[1], lim[1]) /\ RLe(lim[2], l2[2])) => res.sel \subseteq I_Selection(comps, l2)
\* the decision for a window depends on that window only: it is a function of its own patterns
PerWindow   == Done => \A w, v \in Win : pat[w] = pat[v] => ((w \in res.sel) = (v \in res.sel))

ExportCase == (Export /\ Done) =>
    PrintT(ToJson([pat |-> pat, comps |-> comps, lim |-> lim, thr |-> thr,
                   sel |-> res.sel, msel |-> res.msel,
                   psel |-> P_Selections(comps, lim), pmsel |-> P_MaxSelections(comps, thr)]))
=============================================================================
