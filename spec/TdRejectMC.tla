----------------------------- MODULE TdRejectMC -----------------------------
EXTENDS TdReject
\* chunk patterns (4 STA chunks, LTA = first 2 chunks)
Pats == << <<1, 1, 1, 1>>,      \* 1: constant envelope, every ratio 1
           <<1, 1, 1, 8>>,      \* 2: burst in the last chunk, ratio 8
           <<4, 4, 1, 4>>,      \* 3: quiet third chunk, ratio 1/4
           <<1, 3, 2, 2>>,      \* 4: ratios 1/2, 3/2, 1, 1
           <<2, 2, 4, 1>> >>    \* 5: ratios 1, 1, 2, 1/2   (exactly on the limits <<1/2, 2>>)
CompSets2 == { <<"ns", "ew", "vt">>, <<"vt", "ew">> }
AllCompSets == { <<"ns", "ew", "vt">>, <<"vt">>, <<"ns">>, <<"ew", "ns">>, <<"vt", "ew">>, <<"ew">> }
Pats4 == << Pats[1], Pats[2], Pats[3], Pats[5] >>
\* windows of two durations in one list: 4 chunks and 8 chunks (a burst or a quiet chunk in the second half of the long one)
PatsMixed == << <<1, 1, 1, 1>>, <<1, 1, 1, 8>>, <<1, 1, 1, 1, 1, 1, 1, 8>>, <<1, 1, 1, 1, 4, 4, 1, 4>>, <<2, 2, 2, 2, 2, 2, 2, 2>> >>
Lims == << << <<1, 5>>, <<5, 2>> >>,      \* the defaults 0.2 .. 2.5
           << <<1, 2>>, <<2, 1>> >>,      \* 0.5 .. 2  (ties with pattern 5)
           << <<3, 5>>, <<7, 5>> >>,      \* 0.6 .. 1.4
           << <<1, 10>>, <<10, 1>> >>,    \* 0.1 .. 10
           << <<1, 4>>, <<4, 1>> >>,      \* 0.25 .. 4 (ties with the 1 : 4 patterns)
           << <<0, 1>>, <<5, 2>> >>,      \* a limit of exactly 0 is a limit like any other: nothing is too quiet ...
           << <<1, 5>>, <<0, 1>> >> >>    \* ... and with an upper limit of 0 every window with a positive ratio is too loud
Thrs == << << <<9, 10>>, TRUE >>, << <<1, 2>>, TRUE >>, << <<3, 1>>, FALSE >>, << <<8, 1>>, FALSE >>,
          << <<1, 1>>, TRUE >>,          \* normalised threshold 1: "reject only the loudest window(s)"
          << <<9, 10>>, TRUE >>, << <<3, 1>>, FALSE >> >>
\* three of the five (limits, threshold) pairs for the secondary configurations
Lims3 == << Lims[1], Lims[2], Lims[5] >>
Thrs3 == << Thrs[2], Thrs[3], Thrs[5] >>
=============================================================================
