CONSTANTS
  NWin = 2
  Patterns <- Pats4
  LtaChunks = 2
  CompSets <- CompSets2
  Limits <- Lims3
  MaxThr <- Thrs3
  LtaHalf = TRUE
  Export = TRUE
INIT Init
NEXT Next
CHECK_DEADLOCK FALSE
INVARIANT Refines
INVARIANT Conjunction
INVARIANT ConjunctionI
INVARIANT Monotone
INVARIANT PerWindow
CONSTRAINT ExportCase
