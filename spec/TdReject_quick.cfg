CONSTANTS
  NWin = 2
  Patterns <- Pats4
  LtaChunks = 2
  CompSets <- AllCompSets
  Limits <- Lims
  MaxThr <- Thrs
  LtaHalf = FALSE
  Export = TRUE
INIT Init
NEXT Next
CHECK_DEADLOCK FALSE
INVARIANT Refines
INVARIANT Conjunction
INVARIANT ConjunctionI
INVARIANT Monotone
INVARIANT PerWindow
CONSTRAINT ExportCase
