CONSTANTS
  Batches <- Batches3
  Need <- NeedDef
  NProcs = {1, 2, 3}
  SharedPerChunk = FALSE
  AnyChunking = TRUE
  OptSets <- OptsAll
  SwapOptions = FALSE
  Export = FALSE
INIT TInit
NEXT TNext
CHECK_DEADLOCK FALSE
CONSTRAINT Accepted
