------------------------------ MODULE TraceCli ------------------------------
(* C19, code -> spec: the records written by the guarded hook in the CLI worker
   (file, FFT length stored in the task's settings object before and after the
   call, in completion order) must be a behaviour of Cli with SharedPerChunk =
   FALSE: every task ends with the FFT length the file needs alone (whether it started
   from a length left behind by another task is reported as information only:
   it is harmless when that length is not larger), and the order of
   completions is one the chunked pool can produce (TLC infers which worker took
   which chunk).  Several runs per TLC invocation (run id chosen in Init).     *)
EXTENDS Cli, IOUtils

Runs == JsonDeserialize(IOEnv.TRACE_FILE)
VARIABLES rid, l
tvars == <<vars, rid, l>>

TInit == /\ rid \in 1..Len(Runs) /\ l = 1
         /\ Files = Runs[rid].files /\ NProc = Runs[rid].nproc /\ opts = <<Runs[rid].opts[1], Runs[rid].opts[2]>>
         /\ csz \in 1..Len(Runs[rid].files)        \* (which chunking the pool used is inferred, not prescribed)
         /\ wrote = [f \in FileSet |-> <<>>]
         /\ nextChunk = 1
         /\ cur = [w \in Workers |-> <<0, 0>>]
         /\ chunkN = [c \in 1..NChunks |-> 0]
         /\ out = [f \in FileSet |-> 0]

Ev == Runs[rid].ev[l]
TTake == \E w \in Workers : Take(w) /\ UNCHANGED <<rid, l>>
TProcess == /\ l <= Len(Runs[rid].ev)
            /\ \E w \in Workers :
                  /\ cur[w][1] # 0
                  /\ Chunk(cur[w][1])[cur[w][2]] = Ev.file
                  /\ ProcessNext(w)
                  /\ out'[Ev.file] = Ev.na
            /\ l' = l + 1 /\ rid' = rid
TNext == TTake \/ TProcess
Accepted == (l = Len(Runs[rid].ev) + 1 /\ AllWritten) => PrintT(ToJson([acc |-> rid]))
=============================================================================
