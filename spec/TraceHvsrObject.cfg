CONSTANTS
  NA = 1
  NW = 3
  NF = 6
  Alphabet <- Alpha6
  Ranges <- Ranges6
  NSet <- NSetB
  MaxIts <- MaxItsB
  TdMasks <- AllMasks
  Boxes <- NoBoxes
  InitSel <- InitAll
  SThr <- SThrHalf
  DFree = FALSE
  ZeroExact = FALSE
  Export = FALSE
INIT TraceInit
NEXT TraceNext
VIEW TraceView
CHECK_DEADLOCK FALSE
CONSTRAINT Accepted
INVARIANT PeaksCurrent
