------------------------- MODULE TraceHvsrObject -------------------------
(* Trace validation for HvsrObject: every recorded step of the real objects
   (action name, arguments, returned value, full projected post-state) must be
   a step the PROPERTY tier of the specification allows.  Many traces per TLC
   run (trace id chosen in Init); an accepted trace prints {"acc": id}.     *)
EXTENDS HvsrObjectMC, SequencesExt

Traces == JsonDeserialize(IOEnv.TRACE_FILE)

VARIABLES tid, l
tvars == <<vars, tid, l>>

Tup2(s) == <<s[1], s[2]>>
Ev      == Traces[tid].ev[l]

TraceInit ==
    /\ tid \in 1..Len(Traces)
    /\ l = 1
    /\ cv   = Traces[tid].cv
    /\ rng  = Tup2(Traces[tid].s0.r)
    /\ mrng = Tup2(Traces[tid].s0.m)
    /\ kwe  = TRUE
    /\ pk   = Traces[tid].s0.pk
    /\ vw   = Traces[tid].s0.vw
    /\ vp   = Traces[tid].s0.vp
    /\ last = [op |-> "Init"]

Consume(op) == l <= Len(Traces[tid].ev) /\ Ev.op = op /\ l' = l + 1 /\ tid' = tid

PostMatches(withMeta) ==
    /\ rng' = Tup2(Ev.t.r)
    /\ pk'  = Ev.t.pk
    /\ vw'  = Ev.t.vw
    /\ vp'  = Ev.t.vp
    /\ withMeta => mrng' = Tup2(Ev.t.m)

TrUpdateRange ==
    /\ Consume("UpdateRange")
    /\ UpdateRangeP(Tup2(Ev.r), Ev.kw, Ev.t.pk)
    /\ PostMatches(TRUE)
    /\ last' = [op |-> "UpdateRange"]

TrTdReject ==
    /\ Consume("TdReject")
    /\ vw' = [a \in Az |-> [w \in Win |-> w \in ToSet(Ev.S)]]
    /\ vp' = [a \in Az |-> [w \in Win |-> w \in ToSet(Ev.S)]]
    /\ UNCHANGED <<cv, rng, mrng, kwe, pk>>
    /\ PostMatches(TRUE)
    /\ last' = [op |-> "TdReject"]

TrManual ==
    /\ Consume("ManualReject")
    /\ vw' = [vw EXCEPT ![Ev.a] = [w \in Win |-> vw[Ev.a][w] /\ w \notin ToSet(Ev.S)]]
    /\ vp' = [vp EXCEPT ![Ev.a] = [w \in Win |-> vp[Ev.a][w] /\ w \notin ToSet(Ev.S)]]
    /\ UNCHANGED <<cv, rng, mrng, kwe, pk>>
    /\ PostMatches(TRUE)
    /\ last' = [op |-> "ManualReject"]

TrManualSession ==
    /\ Consume("ManualSession")
    /\ LET r == Tup2(Ev.r)
           b == <<Ev.b[1], Ev.b[2], Ev.b[3], Ev.b[4]>>
           noop == r = rng /\ kwe
           p0 == IF noop THEN pk ELSE Ev.t.pk
           w0 == IF noop THEN vw ELSE MaskVW(p0)
           v0 == IF noop THEN vp ELSE MaskVP(p0)
       IN /\ (noop \/ PeaksAllowed(p0, r)) = TRUE
          /\ rng' = r /\ pk' = p0 /\ kwe' = kwe /\ mrng' \in {r, mrng}
          /\ vw' = [a \in Az |-> [w \in Win |-> w0[a][w] /\ ~Hit(a, w, b)]]
          /\ vp' = [a \in Az |-> [w \in Win |-> v0[a][w] /\ ~Hit(a, w, b)]]
          /\ UNCHANGED cv
    /\ PostMatches(FALSE)
    /\ last' = [op |-> "ManualSession"]

\* the container meta is not constrained here (C06 does not speak about it; C12 is
\* judged by the write/read round trip itself)
TrFdwra ==
    /\ Consume("Fdwra")
    /\ LET r    == Tup2(Ev.r)
           noop == r = rng /\ Ev.kw /\ kwe
           p0   == IF noop THEN pk ELSE Ev.t.pk
           w0   == IF noop THEN vw ELSE MaskVW(p0)
           v0   == IF noop THEN vp ELSE MaskVP(p0)
           \* property-level outcomes of azimuth a that end in the recorded masks
           outs(a) == { o \in Fdwra1("P", a, p0, r, Tup2(Ev.n), Ev.mi, w0[a], v0[a]) :
                          o.st = "ok" /\ o.vw = Ev.t.vw[a] /\ o.vp = Ev.t.vp[a] }
       IN \* (= TRUE: evaluated as plain state-level expressions; as actions the nested quantifiers overflow TLC's stack)
          /\ (noop \/ PeaksAllowed(p0, r)) = TRUE
          /\ (\A a \in Az : \E o \in outs(a) : o.it <= Ev.it) = TRUE      \* returned value = max over the azimuths
          /\ (\E a \in Az : \E o \in outs(a) : o.it = Ev.it) = TRUE
          /\ rng' = r /\ pk' = p0 /\ kwe' = kwe
          /\ vw' = Ev.t.vw /\ vp' = Ev.t.vp
          /\ mrng' \in {r, mrng}
          /\ UNCHANGED cv
    /\ PostMatches(FALSE)
    /\ last' = [op |-> "Fdwra"]

\* the real call raised an exception: acceptable only if the published algorithm is undefined for
\* some azimuth under some property-level choice (fewer than two peaks, mean curve without a peak)
TrFdwraUndef ==
    /\ Consume("FdwraUndef")
    /\ LET r == Tup2(Ev.r)
           noop == r = rng /\ Ev.kw /\ kwe
           p0 == IF noop THEN pk ELSE Ev.t.pk
           w0 == IF noop THEN vw ELSE MaskVW(p0)
           v0 == IF noop THEN vp ELSE MaskVP(p0)
       IN /\ (noop \/ PeaksAllowed(p0, r)) = TRUE
          /\ (\E a \in Az : \E o \in Fdwra1("P", a, p0, r, Tup2(Ev.n), Ev.mi, w0[a], v0[a]) : o.st = "undef") = TRUE
    /\ UNCHANGED svars
    /\ last' = [op |-> "FdwraUndef"]

\* read-only operations (plots, summaries, statistics accessors, write to file)
TrReadOnly ==
    /\ Consume("ReadOnly")
    /\ UNCHANGED svars
    /\ PostMatches(TRUE)
    /\ last' = [op |-> "ReadOnly"]

TraceNext == TrUpdateRange \/ TrTdReject \/ TrManual \/ TrManualSession \/ TrFdwra \/ TrFdwraUndef \/ TrReadOnly
TraceSpec == TraceInit /\ [][TraceNext]_tvars

Accepted == (l = Len(Traces[tid].ev) + 1) => PrintT(ToJson([acc |-> tid]))
Progress == PrintT(ToJson([at |-> tid, l |-> l]))
TraceView == <<svars, tid, l>>
=============================================================================
