------------------------- MODULE TraceRecordingHeap -------------------------
(* C18: recordings persist exactly, copies are independent.  Validates recorded
   histories of the real TimeSeries / SeismicRecording3C objects against the
   storage/content rules of each operation (module Heap).

   kinds and slots
     "arr"  <<samples>>                         a numpy array owned by the caller
     "ts"   <<samples, dt>>                     TimeSeries
     "rec"  <<ns, ew, vt, dt, degrees mod 360, meta content>>   SeismicRecording3C
     "file" same six content slots (storage 0)  a saved recording                  *)
EXTENDS Heap, Json, IOUtils, SequencesExt

Traces == JsonDeserialize(IOEnv.TRACE_FILE)
VARIABLES tid, l, world
tvars == <<tid, l, world>>
Ev == Traces[tid].ev[l]
R(name) == Ev.roles[name]
News == ToSet(Ev.new)

Init == tid \in 1..Len(Traces) /\ l = 1 /\ world = Traces[tid].ev[1].pre

Samples == {1, 2, 3}

Rule(e, pre, post) ==
    CASE e.op = "NewArr" -> Fresh(pre, post, News) /\ FrameExcept(pre, post, {}) /\ OnlyNew(pre, post, News)
      [] e.op = "NewTs"  -> /\ Fresh(pre, post, {R("t")}) /\ FrameExcept(pre, post, {}) /\ OnlyNew(pre, post, {R("t")})
                            /\ Dig(post, R("t"), 1) = Dig(pre, R("a"), 1)
      [] e.op = "NewRec" -> /\ Fresh(pre, post, {R("r")}) /\ FrameExcept(pre, post, {}) /\ OnlyNew(pre, post, {R("r")})
                            /\ Dig(post, R("r"), 1) = Dig(pre, R("t1"), 1)
                            /\ Dig(post, R("r"), 2) = Dig(pre, R("t2"), 1)
                            /\ Dig(post, R("r"), 3) = Dig(pre, R("t3"), 1)
                            /\ Dig(post, R("r"), 4) = Dig(pre, R("t1"), 2)
      [] e.op = "CopyRec" -> /\ Fresh(pre, post, {R("dst")}) /\ FrameExcept(pre, post, {}) /\ OnlyNew(pre, post, {R("dst")})
                             /\ SameContent(post, R("dst"), pre, R("src"))
      [] e.op = "CopyTs"  -> /\ Fresh(pre, post, {R("dst")}) /\ FrameExcept(pre, post, {}) /\ OnlyNew(pre, post, {R("dst")})
                             /\ SameContent(post, R("dst"), pre, R("src"))
      [] e.op = "Split"   -> /\ Fresh(pre, post, News) /\ FrameExcept(pre, post, {R("src")}) /\ OnlyNew(pre, post, News)
                             \* the source keeps its samples, time step, orientation and storage (only meta records the split)
                             /\ SlotSame(pre, R("src"), post, R("src"), 1..5)
                             /\ \A i \in 1..5 : Cell(post, R("src"), i) = Cell(pre, R("src"), i)
                             /\ \A w \in News : Dig(post, w, 4) = Dig(pre, R("src"), 4) /\ Dig(post, w, 5) = Dig(pre, R("src"), 5)
      [] e.op = "SplitTs" -> /\ Fresh(pre, post, News) /\ FrameExcept(pre, post, {}) /\ OnlyNew(pre, post, News)
                             /\ \A w \in News : Dig(post, w, 2) = Dig(pre, R("src"), 2)          \* same time step
      [] e.op = "InPlaceTs" -> /\ FrameExcept(pre, post, {R("o")}) /\ OnlyNew(pre, post, {})
                               /\ Dig(post, R("o"), 2) = Dig(pre, R("o"), 2)
      [] e.op = "InPlace" -> /\ FrameExcept(pre, post, {R("o")}) /\ OnlyNew(pre, post, {})
                             /\ Dig(post, R("o"), 4) = Dig(pre, R("o"), 4)
                             /\ (e.what = "orient" => Dig(post, R("o"), 3) = Dig(pre, R("o"), 3))
                             /\ (e.what # "orient" => Dig(post, R("o"), 5) = Dig(pre, R("o"), 5))
      [] e.op = "Edit"    -> /\ FrameExcept(pre, post, {R("o")}) /\ OnlyNew(pre, post, {})
                             /\ \A i \in 1..NSlots(pre, R("o")) : i # e.slot =>
                                    post[R("o")].slots[i] = pre[R("o")].slots[i]
                             /\ Cell(post, R("o"), e.slot) = Cell(pre, R("o"), e.slot)
      [] e.op = "Save"    -> /\ Fresh(pre, post, {R("f")}) /\ FrameExcept(pre, post, {}) /\ OnlyNew(pre, post, {R("f")})
                             /\ SameContent(post, R("f"), pre, R("src"))
      [] e.op = "Load"    -> /\ Fresh(pre, post, {R("dst")}) /\ FrameExcept(pre, post, {}) /\ OnlyNew(pre, post, {R("dst")})
                             /\ SameContent(post, R("dst"), pre, R("f"))
      [] OTHER -> FALSE

Step == /\ l <= Len(Traces[tid].ev)
        /\ world = Ev.pre
        \* (= TRUE: evaluate as plain state-level expressions, not as actions - large quantifiers otherwise
        \*  nest TLC's action evaluation too deeply)
        /\ Rule(Ev, Ev.pre, Ev.post) = TRUE
        /\ NoSharing(Ev.post) = TRUE
        /\ world' = Ev.post /\ l' = l + 1 /\ tid' = tid
Next == Step
Accepted == (l = Len(Traces[tid].ev) + 1) => PrintT(ToJson([acc |-> tid]))
Progress == PrintT(ToJson([at |-> tid, l |-> l]))
=============================================================================
