INIT Init
NEXT Next
CHECK_DEADLOCK FALSE
CONSTRAINT Accepted
