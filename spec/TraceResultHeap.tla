--------------------------- MODULE TraceResultHeap ---------------------------
(* HVSR result objects as a heap (module Heap): which objects an operation may
   change, which it creates on storage of their own.  Binds the clauses of C08
   ("changing the range re-evaluates every peak" - of THAT object), C11 / C06
   (per-azimuth masks are per azimuth), C20 (figures, tables and statistics are
   read-only) and C12 (writing is read-only, reading yields an object of its own)
   that speak about objects OTHER than the one an operation is applied to - the
   state machine of module HvsrObject has a single object and cannot.

   kinds and slots (mutable storage is tracked for masks, cached peaks and meta;
   frequency and curves are never written by the library: content only)
     "trad"    <<frequency, curves, window mask, peak mask, peak frequencies,
                 peak amplitudes, search range, meta>>
     "azi"     the eight slots of every azimuth in turn, then <<azimuths, meta>>
     "diffuse" <<frequency, curve, stored peak, search range, meta>>
     "file"    one content slot (the bytes written)

   NewTrad / NewDiffuse -> o   fresh; nothing else changes
   Assemble(srcs) -> a         HvsrAzimuthal from per-azimuth objects: a is fresh
                               (shares no mask, peak array or meta with its sources
                               or anything else), the sources are bystanders
   UpdateRange(o), Reject(o)   only o changes; its frequency and curves never do;
                               Reject (rejection algorithms, manual masks) leaves
                               slots named in e.fixed alone
   ReadOnly(o)                 accessors, statistics, figures, summary tables,
                               SESAME verdicts, writing to a file: NOTHING changes
   Read(f) -> o                fresh
   After every step no two slots anywhere share mutable storage (NoSharing).    *)
EXTENDS Heap, Json, IOUtils, SequencesExt

Traces == JsonDeserialize(IOEnv.TRACE_FILE)
VARIABLES tid, l, world
tvars == <<tid, l, world>>
Ev == Traces[tid].ev[l]
R(name) == Ev.roles[name]
News == ToSet(Ev.new)

Init == tid \in 1..Len(Traces) /\ l = 1 /\ world = Traces[tid].ev[1].pre

Rule(e, pre, post) ==
    CASE e.op \in {"NewTrad", "NewDiffuse", "Assemble", "Read"} ->
            /\ Fresh(pre, post, News) /\ FrameExcept(pre, post, {}) /\ OnlyNew(pre, post, News)
      [] e.op \in {"UpdateRange", "Reject"} ->
            /\ FrameExcept(pre, post, {R("o")}) /\ OnlyNew(pre, post, {})
            /\ \A i \in ToSet(e.fixed) : Dig(post, R("o"), i) = Dig(pre, R("o"), i)
      [] e.op = "ReadOnly" ->
            /\ FrameExcept(pre, post, {}) /\ OnlyNew(pre, post, News)
            /\ \A f \in News : post[f].kind = "file"
      [] OTHER -> FALSE

Step == /\ l <= Len(Traces[tid].ev)
        /\ world = Ev.pre
        /\ Rule(Ev, Ev.pre, Ev.post) = TRUE
        /\ NoSharing(Ev.post) = TRUE
        /\ world' = Ev.post /\ l' = l + 1 /\ tid' = tid
Next == Step
Accepted == (l = Len(Traces[tid].ev) + 1) => PrintT(ToJson([acc |-> tid]))
Progress == PrintT(ToJson([at |-> tid, l |-> l]))
=============================================================================
