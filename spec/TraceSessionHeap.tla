-------------------------- MODULE TraceSessionHeap --------------------------
(* C09: processing has no side effects on its inputs and is repeatable; the
   growing top-level session model (read/construct -> process -> modify ->
   process ...) over the heap of module Heap.
     kind "rec"        SeismicRecording3C  <<ns, ew, vt, dt, degrees, meta>>
     kind "set:<Cls>"  settings object (two slots per attribute, see C15)
     kind "res"        a result: content slots (frequency, curves, masks, peaks,
                       range, meta) followed by one slot per mutable value
                       reachable from it (arrays, lists, dicts)
   Process(recs, s) -> r :
     InputsUntouched   every recording is a bystander (storage and content);
     FftLengthRatchet  the settings object may change in its fft_settings slots
                       only (named deviation: the chosen FFT length is stored);
     CallerListUntouched  the list of recordings handed over still holds the same
                       recordings in the same order (recordings a time-step policy
                       sets aside are not taken out of it);
     FreshResult       r shares no storage with anything that existed before;
     Repeatable        if the call repeats an earlier one (same recordings with
                       the same content, same settings object with the same
                       content outside fft_settings) and the effective FFT length
                       is the same, the result content is identical.
   Refuse(recs, s)     process() refuses (raises): nothing but the stored FFT length
                       may have changed, nothing is created.
   Modify*(o)          only o changes - in particular no existing result.      *)
EXTENDS Heap, Json, IOUtils, SequencesExt

Traces == JsonDeserialize(IOEnv.TRACE_FILE)
VARIABLES tid, l, world
tvars == <<tid, l, world>>
Ev == Traces[tid].ev[l]
Role(name) == Ev.roles[name]

Init == tid \in 1..Len(Traces) /\ l = 1 /\ world = Traces[tid].ev[1].pre

Rule(e, pre, post) ==
    CASE e.op = "Setup" -> FrameExcept(pre, post, {}) /\ OnlyNew(pre, post, ToSet(e.new)) /\ Fresh(pre, post, ToSet(e.new))
      [] e.op = "Process" ->
            /\ FrameExcept(pre, post, {Role("s")})                       \* InputsUntouched, ResultsImmutable
            /\ e.listIntact                                              \* CallerListUntouched
            /\ OnlyNew(pre, post, {Role("r")})
            /\ Fresh(pre, post, {Role("r")})                            \* FreshResult
            /\ \A i \in 1..NSlots(pre, Role("s")) :                      \* FftLengthRatchet only
                  (i \notin ToSet(e.fftslots)) => post[Role("s")].slots[i] = pre[Role("s")].slots[i]
            /\ (e.repeats # "" /\ e.sameN) =>                            \* Repeatable
                  \A i \in 1..e.ncontent : Dig(post, Role("r"), i) = Dig(pre, e.repeats, i)
      [] e.op = "Refuse" ->                                            \* process() raised for windows of unequal length (PSD / diffuse field)
            /\ FrameExcept(pre, post, {Role("s")}) /\ OnlyNew(pre, post, {})
            /\ e.listIntact
            /\ \A i \in 1..NSlots(pre, Role("s")) :
                  (i \notin ToSet(e.fftslots)) => post[Role("s")].slots[i] = pre[Role("s")].slots[i]
      [] e.op = "Modify" ->
            /\ FrameExcept(pre, post, {Role("o")}) /\ OnlyNew(pre, post, {})
      [] OTHER -> FALSE

Step == /\ l <= Len(Traces[tid].ev)
        /\ world = Ev.pre
        /\ Rule(Ev, Ev.pre, Ev.post) = TRUE
        /\ world' = Ev.post /\ l' = l + 1 /\ tid' = tid
Next == Step
Accepted == (l = Len(Traces[tid].ev) + 1) => PrintT(ToJson([acc |-> tid]))
Progress == PrintT(ToJson([at |-> tid, l |-> l]))
=============================================================================
