-------------------------- MODULE TraceSettingsHeap --------------------------
(* C15: settings objects round-trip through files and are independent of one
   another.  World objects (module Heap):
     kind "set:<Class>"  one settings object; two slots per attribute in `attrs`
                         order: <<container storage, content>> and <<storage of
                         the array nested in a dict attribute (or 0), its content>>
     kind "user"         a list / array owned by the caller and passed as argument
     kind "file"         a saved settings file (content slots only)
   The first objects of every history are `pristine` default instances of each
   class, kept alive and never touched: sharing storage with them, or changing
   them as a bystander, is exactly "changing the defaults of objects created
   later".  Storage may be shared with the caller's own lists (that is Python
   assignment), never between two settings objects.                           *)
EXTENDS Heap, Json, IOUtils, SequencesExt

Traces == JsonDeserialize(IOEnv.TRACE_FILE)
VARIABLES tid, l, world
tvars == <<tid, l, world>>
Ev == Traces[tid].ev[l]
Role(name) == Ev.roles[name]
News == ToSet(Ev.new)

Init == tid \in 1..Len(Traces) /\ l = 1 /\ world = Traces[tid].ev[1].pre

IsSettings(w, o) == w[o].kind # "user" /\ w[o].kind # "file"
SetIds(w) == { o \in Ids(w) : IsSettings(w, o) }

\* no two settings objects (pristine defaults included) reach the same mutable storage
NoSharedSettingsState(w) ==
    \A o1 \in SetIds(w) : \A o2 \in SetIds(w) : \A i \in 1..NSlots(w, o1) : \A j \in 1..NSlots(w, o2) :
        (Cell(w, o1, i) # 0 /\ Cell(w, o1, i) = Cell(w, o2, j)) => (o1 = o2 /\ i = j)

\* settings objects created by this step share no storage with settings objects that existed before
FreshSettings(pre, post, new) ==
    /\ \A o \in new : o \notin Ids(pre) /\ o \in Ids(post)
    /\ \A o \in new : \A p \in SetIds(pre) : Cells(post, o) \cap Cells(pre, p) = {}

\* caller-owned values whose storage the object holds (Python assignment shares them with the caller):
\* an in-place change of the attribute is visible through the caller's own reference, and only there
Sharers(pre, o) == { u \in Ids(pre) : pre[u].kind = "user" /\ Cells(pre, u) \cap Cells(pre, o) # {} }

Rule(e, pre, post) ==
    CASE e.op = "Pristine" -> FreshSettings(pre, post, News) /\ FrameExcept(pre, post, {}) /\ OnlyNew(pre, post, News)
      [] e.op = "User"     -> FrameExcept(pre, post, {}) /\ OnlyNew(pre, post, News)
      [] e.op = "Construct" ->
            /\ FreshSettings(pre, post, {Role("o")}) /\ FrameExcept(pre, post, {}) /\ OnlyNew(pre, post, {Role("o")})
            \* explicitly passed arguments arrive with their content
            /\ \A k \in 1..Len(e.args) : Dig(post, Role("o"), e.args[k][1]) = Dig(pre, e.args[k][2], 1)
            \* attributes not passed equal the pristine defaults of the class in content
            /\ \A i \in 1..NSlots(post, Role("o")) :
                  (\A k \in 1..Len(e.args) : e.args[k][1] # i /\ e.args[k][1] # i - 1) =>
                      Dig(post, Role("o"), i) = Dig(pre, Role("pristine"), i)
            /\ post[Role("o")].kind = pre[Role("pristine")].kind
      [] e.op = "Mutate" ->       \* in-place change of one mutable attribute value
            /\ FrameExcept(pre, post, {Role("o")} \cup Sharers(pre, Role("o"))) /\ OnlyNew(pre, post, {})
            /\ \A i \in 1..NSlots(pre, Role("o")) : (i \notin ToSet(e.slots)) => post[Role("o")].slots[i] = pre[Role("o")].slots[i]
      [] e.op = "Assign" ->       \* o.attr = value
            /\ FrameExcept(pre, post, {Role("o")}) /\ OnlyNew(pre, post, {})
            /\ \A i \in 1..NSlots(pre, Role("o")) : (i \notin ToSet(e.slots)) => post[Role("o")].slots[i] = pre[Role("o")].slots[i]
            /\ Dig(post, Role("o"), e.slots[1]) = Dig(pre, Role("u"), 1)
      [] e.op = "Save" ->
            /\ FrameExcept(pre, post, {}) /\ OnlyNew(pre, post, {Role("f")})
            /\ SameContent(post, Role("f"), pre, Role("o"))
      [] e.op = "Load" ->         \* direct (cls().load) or through the type-dispatching reader
            /\ FreshSettings(pre, post, {Role("o")}) /\ FrameExcept(pre, post, {}) /\ OnlyNew(pre, post, {Role("o")})
            /\ SameContent(post, Role("o"), pre, Role("f"))
            /\ post[Role("o")].kind = pre[Role("src")].kind          \* same class as the object that was saved
            /\ e.procSame                                             \* processing with the reloaded settings is identical
      [] e.op = "LoadOnto" ->     \* existing.load(file): the object's former content is REPLACED by the file's (nothing of its
                                  \* own history survives), nobody else changes, its class stays
            /\ FrameExcept(pre, post, {Role("o")}) /\ OnlyNew(pre, post, {})
            /\ SameContent(post, Role("o"), pre, Role("f"))
            /\ post[Role("o")].kind = pre[Role("o")].kind
            /\ e.procSame
      [] e.op = "Process" ->      \* processing may store the FFT length in the settings it was given (named deviation
                                  \* FftLengthRatchet, slots listed by the harness), nothing else, nobody else - except
                                  \* the caller's own dictionary if the caller assigned it (o.fft_settings = d shares d)
            /\ FrameExcept(pre, post, {Role("o")} \cup Sharers(pre, Role("o"))) /\ OnlyNew(pre, post, {})
            /\ \A i \in 1..NSlots(pre, Role("o")) : (i \notin ToSet(e.slots)) => post[Role("o")].slots[i] = pre[Role("o")].slots[i]
      [] OTHER -> FALSE

Step == /\ l <= Len(Traces[tid].ev)
        /\ world = Ev.pre
        /\ Rule(Ev, Ev.pre, Ev.post) = TRUE
        /\ NoSharedSettingsState(Ev.post) = TRUE
        /\ world' = Ev.post /\ l' = l + 1 /\ tid' = tid
Next == Step
Accepted == (l = Len(Traces[tid].ev) + 1) => PrintT(ToJson([acc |-> tid]))
Progress == PrintT(ToJson([at |-> tid, l |-> l]))
=============================================================================
