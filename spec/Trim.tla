-------------------------------- MODULE Trim --------------------------------
(* C18: trim(start, end) keeps exactly the samples from the one nearest to start
   through the one nearest to end and refuses ranges outside the record.
   Record: N samples at sampling rate Fs; times on the quarter-interval lattice:
   start = QS / (4 Fs), end = QE / (4 Fs).  A time exactly midway between two
   samples is a tie (either neighbour).                                        *)
EXTENDS Integers, Sequences, TLC, Json

CONSTANTS NMax, FsSet, Export
VARIABLES n, fs, qs, qe, done, res
vars == <<n, fs, qs, qe, done, res>>

Nearest(q) == IF q % 4 = 0 THEN {q \div 4}
              ELSE IF q % 4 = 1 THEN {q \div 4}
              ELSE IF q % 4 = 3 THEN {q \div 4 + 1}
              ELSE {q \div 4, q \div 4 + 1}
Refused == qs < 0 \/ qs >= qe \/ qe > 4 * (n - 1)
Allowed == { <<a, b>> : a \in Nearest(qs), b \in Nearest(qe) }

Init == /\ n \in 2..NMax /\ fs \in FsSet
        /\ qs \in (-2)..(4 * NMax) /\ qe \in (-2)..(4 * NMax + 2)
        /\ qs <= 4 * n + 1 /\ qe <= 4 * n + 2
        /\ done = FALSE /\ res = {}
Evaluate == ~done /\ done' = TRUE /\ res' = (IF Refused THEN {} ELSE Allowed) /\ UNCHANGED <<n, fs, qs, qe>>
Next == Evaluate

InsideRecord == done => \A p \in res : 0 <= p[1] /\ p[1] <= p[2] /\ p[2] <= n - 1
\* every allowed first/last sample is a nearest one: no other sample is strictly closer
NearestIsClosest == done => \A p \in res : \A i \in 0..(n - 1) :
                        /\ (4 * p[1] - qs) * (4 * p[1] - qs) <= (4 * i - qs) * (4 * i - qs)
                        /\ (4 * p[2] - qe) * (4 * p[2] - qe) <= (4 * i - qe) * (4 * i - qe)
ExportCase == (Export /\ done) => PrintT(ToJson([n |-> n, fs |-> fs, qs |-> qs, qe |-> qe, refused |-> Refused, allowed |-> res]))
=============================================================================
