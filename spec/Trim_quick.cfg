CONSTANTS
  NMax = 7
  FsSet = {4, 100, 75}
  Export = TRUE
INIT Init
NEXT Next
CHECK_DEADLOCK FALSE
INVARIANT InsideRecord
INVARIANT NearestIsClosest
CONSTRAINT ExportCase
