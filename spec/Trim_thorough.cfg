CONSTANTS
  NMax = 12
  FsSet = {4, 100, 75, 128, 300}
  Export = TRUE
INIT Init
NEXT Next
CHECK_DEADLOCK FALSE
INVARIANT InsideRecord
INVARIANT NearestIsClosest
CONSTRAINT ExportCase
