------------------------------ MODULE Voronoi ------------------------------
(* C14, first half: spatial weights are nearest-sensor area fractions.
   Exact geometry over rationals: the boundary is a convex polygon (counter-
   clockwise sequence of vertices); the cell of sensor i is the boundary clipped
   by the half-planes "closer to i than to j"
        2 (xj - xi) x + 2 (yj - yi) y <= xj^2 + yj^2 - xi^2 - yi^2
   (Sutherland-Hodgman), its area by the shoelace formula; the weight is the area
   fraction.  Sensors strictly inside the boundary are retained, the others
   dropped.  TLC checks on every layout: weights non-negative, sum to one,
   independent of the sensor order, of a translation and of a uniform scaling.  *)
EXTENDS Rat, TLC, Json, FiniteSetsExt

CONSTANTS Boundary,   \* sequence of <<x, y>> integer vertices, counter-clockwise, convex
          Lattice,    \* set of <<x, y>> integer points sensors may sit on
          NSensors, Export

VARIABLES sens, done, res
vars == <<sens, done, res>>

P(x, y) == <<x, y>>
Px(p) == p[1]
Py(p) == p[2]
RP(p) == <<R(p[1]), R(p[2])>>

\* half-plane a x + b y <= c
Val(h, p) == RSub(RAdd(RMul(h[1], p[1]), RMul(h[2], p[2])), h[3])
InsideH(h, p) == RSign(Val(h, p)) <= 0
\* intersection of segment p-q with the line a x + b y = c
Cross(h, p, q) ==
    LET vp == Val(h, p)
        vq == Val(h, q)
        t  == RDiv(vp, RSub(vp, vq))
    IN  <<RAdd(p[1], RMul(t, RSub(q[1], p[1]))), RAdd(p[2], RMul(t, RSub(q[2], p[2])))>>

RECURSIVE ClipFrom(_, _, _)
ClipFrom(poly, h, k) ==
    IF k > Len(poly) THEN <<>>
    ELSE LET cur == poly[k]
             prv == poly[IF k = 1 THEN Len(poly) ELSE k - 1]
             here == IF InsideH(h, cur)
                     THEN (IF InsideH(h, prv) THEN <<cur>> ELSE <<Cross(h, prv, cur), cur>>)
                     ELSE (IF InsideH(h, prv) THEN <<Cross(h, prv, cur)>> ELSE <<>>)
         IN  here \o ClipFrom(poly, h, k + 1)
Clip(poly, h) == IF Len(poly) = 0 THEN <<>> ELSE ClipFrom(poly, h, 1)

RECURSIVE Shoelace(_, _)
Shoelace(poly, k) ==
    IF k > Len(poly) THEN R(0)
    ELSE LET p == poly[k]
             q == poly[IF k = Len(poly) THEN 1 ELSE k + 1]
         IN  RAdd(RSub(RMul(p[1], q[2]), RMul(q[1], p[2])), Shoelace(poly, k + 1))
Area(poly) == IF Len(poly) < 3 THEN R(0) ELSE RAbs(RDiv(Shoelace(poly, 1), R(2)))

Bisector(pi, pj) == <<R(2 * (pj[1] - pi[1])), R(2 * (pj[2] - pi[2])), R(pj[1]*pj[1] + pj[2]*pj[2] - pi[1]*pi[1] - pi[2]*pi[2])>>

BPoly(b) == [k \in 1..Len(b) |-> RP(b[k])]
\* strictly inside a convex counter-clockwise polygon
StrictlyInside(b, p) ==
    \A k \in 1..Len(b) :
        LET a == b[k]
            c == b[IF k = Len(b) THEN 1 ELSE k + 1]
        IN  (c[1] - a[1]) * (p[2] - a[2]) - (c[2] - a[2]) * (p[1] - a[1]) > 0

RECURSIVE ClipAll(_, _, _, _)
ClipAll(poly, s, others, k) ==
    IF k > Len(others) THEN poly ELSE ClipAll(Clip(poly, Bisector(s, others[k])), s, others, k + 1)

Kept(b, ss) == SelectSeq(ss, LAMBDA p : StrictlyInside(b, p))
KeptIdx(b, ss) == { i \in 1..Len(ss) : StrictlyInside(b, ss[i]) }
Weights(b, ss) ==
    LET ks == Kept(b, ss)
        tot == Area(BPoly(b))
    IN  [i \in 1..Len(ks) |->
            RDiv(Area(ClipAll(BPoly(b), ks[i], SelectSeq(ks, LAMBDA q : q # ks[i]), 1)), tot)]

\* all increasing selections of NSensors lattice points (as sequences in a canonical order)
RECURSIVE SeqsOf(_, _)
SeqsOf(S, n) == IF n = 0 THEN {<<>>}
                ELSE UNION { { <<p>> \o q : q \in SeqsOf({ r \in S : r[1] > p[1] \/ (r[1] = p[1] /\ r[2] > p[2]) }, n - 1) } : p \in S }

Init == sens \in SeqsOf(Lattice, NSensors) /\ done = FALSE /\ res = <<>>
Evaluate == ~done /\ done' = TRUE /\ res' = Weights(Boundary, sens) /\ UNCHANGED sens
Next == Evaluate

NonNegative == done => \A i \in 1..Len(res) : RSign(res[i]) >= 0
SumToOne == done /\ Len(res) >= 1 => RSumSeq(res) = R(1)
Rev(s) == [i \in 1..Len(s) |-> s[Len(s) + 1 - i]]
OrderInvariant == done => LET r2 == Weights(Boundary, Rev(sens)) IN Rev(r2) = res
Shift(s, dx, dy) == [i \in 1..Len(s) |-> <<s[i][1] + dx, s[i][2] + dy>>]
Scale(s, k) == [i \in 1..Len(s) |-> <<s[i][1] * k, s[i][2] * k>>]
TranslationInvariant == done => Weights(Shift(Boundary, 7, -3), Shift(sens, 7, -3)) = res
ScaleInvariant == done => Weights(Scale(Boundary, 3), Scale(sens, 3)) = res
ExportCase == (Export /\ done) => PrintT(ToJson([sens |-> sens, kept |-> KeptIdx(Boundary, sens), w |-> res]))

\* model values
Square4 == << <<0, 0>>, <<4, 0>>, <<4, 4>>, <<0, 4>> >>
Penta == << <<0, 0>>, <<5, 0>>, <<6, 3>>, <<3, 6>>, <<0, 4>> >>
LatticeIn3 == { <<x, y>> : x \in 1..3, y \in 1..3 }
\* interior points plus points on the edge and outside (dropped by the culling)
LatticeMix == LatticeIn3 \cup { <<0, 2>>, <<5, 5>>, <<4, 1>> }
LatticePenta == { <<x, y>> : x \in 1..4, y \in 1..4 } \cup { <<5, 2>>, <<6, 6>> }
=============================================================================
