CONSTANTS
  Boundary <- Square4
  Lattice <- LatticeMix
  NSensors = 5
  Export = TRUE
INIT Init
NEXT Next
CHECK_DEADLOCK FALSE
INVARIANT NonNegative
INVARIANT SumToOne
INVARIANT OrderInvariant
INVARIANT TranslationInvariant
INVARIANT ScaleInvariant
CONSTRAINT ExportCase
