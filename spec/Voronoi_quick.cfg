CONSTANTS
  Boundary <- Square4
  Lattice <- LatticeIn3
  NSensors = 4
  Export = TRUE
INIT Init
NEXT Next
CHECK_DEADLOCK FALSE
INVARIANT NonNegative
INVARIANT SumToOne
INVARIANT OrderInvariant
INVARIANT TranslationInvariant
INVARIANT ScaleInvariant
CONSTRAINT ExportCase
